/* vdrv: conformance driver.  usage: vdrv <mode> [--prop Cnn] [--out dir] [--stats file] [--tlcout file]
 *                                   [--samples file] [--known file]   (reads TLC output on stdin) */
#include "base.h"

int vd_tree_main(int argc, char **argv);
int vd_cmp_main(int argc, char **argv);
int vd_parse_main(int argc, char **argv);
int vd_print_main(int argc, char **argv);
int vd_minify_main(int argc, char **argv);
int vd_hooks_main(int argc, char **argv);
int vd_utils_main(int argc, char **argv);
int vd_threads_main(int argc, char **argv);
int vd_treerand_main(int argc, char **argv);

int main(int argc, char **argv)
{
    int k; const char *mode;
    if (argc < 2) { fprintf(stderr, "usage: vdrv <mode> ...\n"); return 2; }
    mode = argv[1];
    VD.prop = "C00"; VD.outdir = "."; VD.mode = mode;
    for (k = 2; k + 1 < argc; k++) {
        if (!strcmp(argv[k], "--prop")) VD.prop = argv[k + 1];
        else if (!strcmp(argv[k], "--out")) VD.outdir = argv[k + 1];
        else if (!strcmp(argv[k], "--tlcout")) VD.passthrough = fopen(argv[k + 1], "w");
        else if (!strcmp(argv[k], "--samples")) VD.samplef = fopen(argv[k + 1], "w");
        else if (!strcmp(argv[k], "--known")) vd_load_known(argv[k + 1]);
    }
    setvbuf(stdout, NULL, _IOLBF, 0);
    if (!strcmp(mode, "tree")) k = vd_tree_main(argc, argv);
    else if (!strcmp(mode, "cmp")) k = vd_cmp_main(argc, argv);
    else if (!strcmp(mode, "parse")) k = vd_parse_main(argc, argv);
    else if (!strcmp(mode, "print")) k = vd_print_main(argc, argv);
    else if (!strcmp(mode, "minify")) k = vd_minify_main(argc, argv);
    else if (!strcmp(mode, "hooks")) k = vd_hooks_main(argc, argv);
    else if (!strcmp(mode, "utils")) k = vd_utils_main(argc, argv);
    else if (!strcmp(mode, "threads")) k = vd_threads_main(argc, argv);
    else if (!strcmp(mode, "treerand")) k = vd_treerand_main(argc, argv);
    else { fprintf(stderr, "vdrv: unknown mode %s\n", mode); k = 2; }
    if (VD.passthrough) fclose(VD.passthrough);
    if (VD.samplef) fclose(VD.samplef);
    return k;
}
