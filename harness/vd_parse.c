/* parse mode (C01 C02 C03 C10, and the parse part of C08): replays the cases emitted by MC_Parse.tla.
 * line: ["P", bytes, e0, e1, z0, z1]   variant = [ok, tree, end, err, class]
 *   e*: buffer of exactly the bytes; z*: bytes followed by a zero byte; *0: termination not required, *1: required
 *   class: "A" must be accepted with this tree, "R" must be rejected, "O" open (L2 prediction only -> drift) */
#include "value.h"
#include <pthread.h>
#include <math.h>

#define PAGE 4096
#define DATA_PAGES 64
static unsigned char *region;          /* [guard][DATA_PAGES data][guard] */
static unsigned char *data_lo, *data_hi;

static void region_init(void)
{
    region = (unsigned char*)mmap(NULL, (DATA_PAGES + 2) * PAGE, PROT_READ | PROT_WRITE, MAP_PRIVATE | MAP_ANONYMOUS, -1, 0);
    if (region == MAP_FAILED) { perror("mmap"); _exit(2); }
    data_lo = region + PAGE; data_hi = data_lo + DATA_PAGES * PAGE;
    mprotect(region, PAGE, PROT_NONE); mprotect(data_hi, PAGE, PROT_NONE);
}
/* place n bytes so that the byte after the last one is inaccessible (flush against the upper guard page);
 * the area becomes read-only.  where=1: flush against the LOWER guard instead, followed by readable junk */
static const char JUNK[] = "]}\"1,:x\\u00e9 [{\"a\":1}] null\0 1e5";
static char *place(const unsigned char *t, size_t n, int where)
{
    unsigned char *p;
    mprotect(data_lo, DATA_PAGES * PAGE, PROT_READ | PROT_WRITE);
    if (where == 0) { p = data_hi - n; memcpy(p, t, n); if (p - 1 >= data_lo) p[-1] = '['; }
    else { p = data_lo; memcpy(p, t, n); if (where == 2) { p[n] = 0; memcpy(p + n + 1, JUNK, sizeof(JUNK)); } else memcpy(p + n, JUNK, sizeof(JUNK)); }
    mprotect(data_lo, DATA_PAGES * PAGE, PROT_READ);
    return (char*)p;
}

/* ------------------------------------------------------------------ observed numbers, judged by the Python oracle */
#define NUMOBS_CAP (1u << 22)
typedef struct { char *lex; uint64_t bits; int iv; } numobs;
static numobs *nobs; static size_t nobs_n;
static uint64_t hstr(const char *s) { uint64_t h = 1469598103934665603ULL; for (; *s; s++) { h ^= (unsigned char)*s; h *= 1099511628211ULL; } return h; }
static void numobs_add(const char *lex, double d, int iv)
{
    size_t h; uint64_t bits; memcpy(&bits, &d, 8);
    if (!nobs) nobs = (numobs*)calloc(NUMOBS_CAP, sizeof(numobs));
    h = (size_t)(hstr(lex) ^ (bits * 0x9E3779B97F4A7C15ULL) ^ (uint64_t)(unsigned)iv) & (NUMOBS_CAP - 1);
    while (nobs[h].lex) { if (nobs[h].bits == bits && nobs[h].iv == iv && !strcmp(nobs[h].lex, lex)) return; h = (h + 1) & (NUMOBS_CAP - 1); }
    if (nobs_n * 2 > NUMOBS_CAP) return;
    nobs[h].lex = strdup(lex); nobs[h].bits = bits; nobs[h].iv = iv; nobs_n++;
}
static void numobs_dump(const char *path)
{
    FILE *f = fopen(path, "w"); size_t k;
    if (!f) return;
    for (k = 0; k < NUMOBS_CAP; k++) if (nobs && nobs[k].lex) fprintf(f, "%s\t%016llx\t%d\n", nobs[k].lex, (unsigned long long)nobs[k].bits, nobs[k].iv);
    fclose(f);
}

/* expected tree (with "#l" lexeme numbers) against a parsed tree */
static int tree_matches(const jv *v, const cJSON *t, char *why, size_t wn)
{
    const char *k;
    if (!t) { snprintf(why, wn, "tree is NULL"); return 0; }
    k = jv_at(v, 0)->s;
    if (!strcmp(k, "#l")) {
        char *lex = jv_bytes(jv_at(v, 1), NULL);
        if ((t->type & 0xFF) != cJSON_Number) { snprintf(why, wn, "node type is %d, expected a number", t->type & 0xFF); return 0; }
        numobs_add(lex, t->valuedouble, t->valueint);
        return 1;
    }
    if (k[0] == 'a' || k[0] == 'o') {
        const jv *ms = jv_at(v, 1); const cJSON *c = t->child; size_t i;
        if ((t->type & 0xFF) != (k[0] == 'a' ? cJSON_Array : cJSON_Object)) { snprintf(why, wn, "node type is %d, expected '%s'", t->type & 0xFF, k); return 0; }
        for (i = 0; i < (ms ? ms->n : 0); i++, c = c->next) {
            if (!c) { snprintf(why, wn, "container has %zu members, expected %zu", i, ms->n); return 0; }
            if (k[0] == 'o') {
                const jv *kb = jv_at(ms->e[i], 0); size_t j;
                if (!c->string || strlen(c->string) != kb->n) { snprintf(why, wn, "key of member %zu has wrong length", i); return 0; }
                for (j = 0; j < kb->n; j++) if ((unsigned char)c->string[j] != (unsigned char)jv_int(kb->e[j])) { snprintf(why, wn, "key of member %zu differs at byte %zu (0x%02x, expected 0x%02lx)", i, j, (unsigned char)c->string[j], jv_int(kb->e[j]) & 0xff); return 0; }
                if (!tree_matches(jv_at(ms->e[i], 1), c, why, wn)) return 0;
            } else if (!tree_matches(ms->e[i], c, why, wn)) return 0;
        }
        if (c) { snprintf(why, wn, "container has more members than expected"); return 0; }
        return 1;
    }
    if (k[0] == 't' && t->valueint != 1) { snprintf(why, wn, "true has integer view %d", t->valueint); return 0; }
    return vb_equal(v, t, why, wn, 0);
}
/* strict equality of two library trees (shape, order, keys, bytes, numbers bit for bit) */
static int trees_equal(const cJSON *a, const cJSON *b)
{
    const cJSON *x, *y;
    if (!a || !b) return a == b;
    if ((a->type & 0xFF) != (b->type & 0xFF)) return 0;
    if ((a->type & 0xFF) == cJSON_Number && (memcmp(&a->valuedouble, &b->valuedouble, 8) != 0 || a->valueint != b->valueint) && !(isnan(a->valuedouble) && isnan(b->valuedouble))) return 0;
    if ((a->valuestring == NULL) != (b->valuestring == NULL) || (a->valuestring && strcmp(a->valuestring, b->valuestring))) return 0;
    if ((a->string == NULL) != (b->string == NULL) || (a->string && strcmp(a->string, b->string))) return 0;
    for (x = a->child, y = b->child; x && y; x = x->next, y = y->next) if (!trees_equal(x, y)) return 0;
    return x == NULL && y == NULL;
}

/* ------------------------------------------------------------------ one call and its verdicts */
enum { EP_LENOPTS, EP_LENOPTS_NOEND, EP_LEN, EP_PARSE, EP_OPTS, EP_OPTS_NOEND, EP_COUNT };
static const char *EPN[] = { "ParseWithLengthOpts", "ParseWithLengthOpts(no end arg)", "ParseWithLength", "Parse", "ParseWithOpts", "ParseWithOpts(no end arg)" };
static long cls_count[3], ep_calls, accepted, rejected, failinj_runs;
static int do_failinject, full_table, default_hooks; static long sweep_count;

static void viol(const char *prop, const char *fmt, ...)
{
    char msg[700]; va_list ap;
    va_start(ap, fmt); vsnprintf(msg, sizeof(msg), fmt, ap); va_end(ap);
    if (strstr(prop, VD.prop) == NULL && prop[0] != '*') { VD.by_kind[0]++; return; }    /* belongs to another property's check */
    vd_violation("%s", msg);
}

/* buf/len: the declared buffer; rnt; var: the model's variant record; ep: entry point */
static cJSON *call_ep(int ep, const char *buf, size_t len, int rnt, const char **endp)
{
    *endp = (const char*)(uintptr_t)0x1;   /* sentinel: untouched */
    rnt = vb_truthy(rnt, vd_salt() + (unsigned long)ep);      /* "termination required" is any non-zero int */
    switch (ep) {
        case EP_LENOPTS: return cJSON_ParseWithLengthOpts(buf, len, endp, rnt);
        case EP_LENOPTS_NOEND: return cJSON_ParseWithLengthOpts(buf, len, NULL, rnt);
        case EP_LEN: return cJSON_ParseWithLength(buf, len);
        case EP_PARSE: return cJSON_Parse(buf);
        case EP_OPTS: return cJSON_ParseWithOpts(buf, endp, rnt);
        default: return cJSON_ParseWithOpts(buf, NULL, rnt);
    }
}

static int check_call(int ep, const char *buf, size_t len, int rnt, const jv *var, int where, cJSON **keep)
{
    const char *end; cJSON *t; char why[300] = ""; const char *cls = jv_at(var, 4)->s;
    int mok = (int)jv_int(jv_at(var, 0)); long mend = jv_int(jv_at(var, 2)), merr = jv_int(jv_at(var, 3));
    int has_end = (ep == EP_LENOPTS || ep == EP_OPTS); const char *gerr; int drift = 0;
    long live0 = al_live;
    ep_calls++;
    if (!VD_TRY()) {
        al_in_call = 0;
        viol("*", "%s(len %zu, rnt %d, placement %d): %s (address %p; buffer %p..%p)", EPN[ep], len, rnt, where,
             vd_fault_sig == SIGALRM ? "does not terminate" : "memory fault", (void*)vd_fault_addr, (const void*)buf, (const void*)(buf + len));
        return 0;
    }
    al_in_call = 1; al_window(0);
    t = call_ep(ep, buf, len, rnt, &end);
    al_in_call = 0;
    gerr = cJSON_GetErrorPtr();
    if (t) {
        accepted++;
        if (cls[0] == 'R') viol("C03", "%s(len %zu, rnt %d) accepted a text that must be rejected", EPN[ep], len, rnt);
        if (cls[0] == 'G') viol("C03 C10", "%s(len %zu, rnt %d): termination required, the value is followed by bytes that are not whitespace, yet accepted", EPN[ep], len, rnt);
        if (cls[0] == 'T') viol("C10", "%s(len %zu): termination required but the value is not followed by whitespace and a zero byte only, yet accepted", EPN[ep], len);
        if (!vb_wellformed(t, why, sizeof(why), 0)) viol("C01", "%s: returned tree is not well-formed: %s", EPN[ep], why);
        else if (cls[0] == 'A' || mok) {
            if (!tree_matches(jv_at(var, 1), t, why, sizeof(why))) { if (cls[0] == 'A') viol("C02", "%s(len %zu, rnt %d): decoded value differs: %s", EPN[ep], len, rnt, why); else drift = 1; }
        } else drift = 1;
        if (gerr != NULL) viol("C10", "%s succeeded but cJSON_GetErrorPtr() is not NULL", EPN[ep]);
        if (has_end) {
            if (end < buf || end > buf + len) viol("C10", "%s: parse end %ld outside the buffer of %zu bytes", EPN[ep], (long)(end - buf), len);
            else {
                size_t plen = (size_t)(end - buf); cJSON *again;
                if (rnt && (plen >= len || *end != 0)) viol("C10", "%s: termination required, succeeded, but parse end does not designate a zero byte inside the buffer", EPN[ep]);
                if ((long)plen != mend) drift = 1;
                /* the bytes before the parse end parse by themselves to an equal tree */
                { char *pc = (char*)malloc(plen + 1); memcpy(pc, buf, plen); al_window(0); again = cJSON_ParseWithLength(pc, plen);
                  if (!again || !trees_equal(again, t)) viol("C10", "%s: the %zu bytes before the parse end do not parse to an equal tree", EPN[ep], plen);
                  cJSON_Delete(again); free(pc); }
            }
        }
        /* walk, print, delete */
        { char *p1 = cJSON_Print(t), *p2 = cJSON_PrintUnformatted(t);
          if (!p1 || !p2) viol("C01", "%s: the returned tree cannot be printed", EPN[ep]);
          cJSON_free(p1); cJSON_free(p2); }
        if (keep && !*keep) *keep = t; else {
            if (keep && *keep && !trees_equal(*keep, t)) viol("C02", "%s returned a different tree than the other entry points for the same text", EPN[ep]);
            cJSON_Delete(t);
        }
    } else {
        rejected++;
        if (cls[0] == 'A') viol(rnt ? "C10" : "C02", "%s(len %zu, rnt %d) rejected a valid text", EPN[ep], len, rnt);
        else if (mok) drift = 1;
        if (has_end) {
            if (end != gerr) viol("C10", "%s failed: reported error position and cJSON_GetErrorPtr() differ", EPN[ep]);
        }
        if (gerr == NULL) viol("C10", "%s failed but cJSON_GetErrorPtr() is NULL", EPN[ep]);
        else if (len > 0 ? (gerr < buf || gerr > buf + len - 1) : (gerr != buf)) viol("C10", "%s failed: error position %ld outside the buffer of %zu bytes", EPN[ep], (long)(gerr - buf), len);
        else if ((long)(gerr - buf) != merr) drift = 1;
        if (al_live != live0) viol("C03", "%s rejected the text but %ld block(s) allocated during the call are still allocated", EPN[ep], al_live - live0);
    }
    if (al_bad_free) viol("C01", "%s: invalid release (double or foreign free)", EPN[ep]);
    VD_END();
    return drift;
}

/* C08: every single allocation failure during a parse of this buffer */
static void failinject(const char *buf, size_t len, int rnt)
{
    long m, k; const char *end; cJSON *t, *ref; static const char other[4] = "[1,"; const char *sentinel = other + 2;   /* what an earlier, unrelated parse left in the caller's variable */
    al_window(0); ref = cJSON_ParseWithLengthOpts(buf, len, &end, rnt); m = al_allocs;
    for (k = 1; k <= m; k++) {
        long live0 = al_live;
        if (!VD_TRY()) { al_in_call = 0; viol("C08", "parse with allocation request %ld of %ld refused: memory fault", k, m); return; }
        al_window(k); end = sentinel; t = cJSON_ParseWithLengthOpts(buf, len, &end, rnt); al_fail_at = 0; failinj_runs++;
        if (t) {      /* C08: "either completes normally or reports failure": a call that gets by without the refused block (keeps a larger buffer, say) completed normally */
            VD.drift++;
            if (!ref || !trees_equal(ref, t)) viol("C08 C02", "parse with allocation request %ld of %ld refused returned a tree that differs from the one it returns otherwise", k, m);
            cJSON_Delete(t);
            if (al_live != live0) viol("C08", "parse with allocation request %ld of %ld refused (and completed) leaves %ld block(s) allocated after the tree was deleted", k, m, al_live - live0);
        }
        else if (al_live != live0) viol("C08", "parse with allocation request %ld of %ld refused leaves %ld block(s) allocated", k, m, al_live - live0);
        else if (cJSON_GetErrorPtr() == NULL) viol("C08 C10", "parse failed (request %ld refused) without an error position", k);
        if (!t && len > 0 && (end != cJSON_GetErrorPtr() || end < buf || end >= buf + len))      /* C10, failure clause: whatever made the parse fail */
            viol("C10", "parse failed (allocation request %ld of %ld refused): the reported error position %s", k, m, end == sentinel ? "was not stored" : end != cJSON_GetErrorPtr() ? "differs from cJSON_GetErrorPtr()" : "lies outside the buffer");
        if (al_bad_free) viol("C08", "parse with request %ld refused: invalid release", k);
        VD_END();
    }
    cJSON_Delete(ref);
    /* the library remains usable */
    t = cJSON_CreateArray(); if (!t) viol("C08", "library unusable after allocation failures"); cJSON_Delete(t);
}

/* ["Y", copy, valid]: the string decoder of the specification copies every byte of copy[] unchanged (everything but zero, quote, backslash);
 * every string literal with 1, 2 and 3 such bytes is parsed and must give exactly those bytes (C02 where the literal is an RFC 8259 string:
 * valid[] bytes / well-formed UTF-8; elsewhere a different outcome is drift). */
static long table_literals, sweep_numbers;
static int u8ok(const unsigned char *s, int n)
{
    int i = 0;
    while (i < n) {
        unsigned c = s[i];
        if (c < 0x80) { i++; continue; }
        if (c >= 0xC2 && c <= 0xDF) { if (i + 1 >= n || (s[i + 1] & 0xC0) != 0x80) return 0; i += 2; continue; }
        if (c >= 0xE0 && c <= 0xEF) { if (i + 2 >= n || (s[i + 1] & 0xC0) != 0x80 || (s[i + 2] & 0xC0) != 0x80) return 0;
            if (c == 0xE0 && s[i + 1] < 0xA0) return 0; if (c == 0xED && s[i + 1] >= 0xA0) return 0; i += 3; continue; }
        return 0;
    }
    return 1;
}
static int do_strtable(const jv *line, int full)
{
    const jv *cp = jv_at(line, 1), *va = jv_at(line, 2); unsigned char copy[256], valid[256]; unsigned b1, b2, b3; int len; unsigned char lit[8];
    if (!cp || !va || cp->n != 255 || va->n != 255) return -1;
    for (b1 = 1; b1 <= 255; b1++) { copy[b1] = (unsigned char)jv_int(cp->e[b1 - 1]); valid[b1] = (unsigned char)jv_int(va->e[b1 - 1]); }
    al_case_begin();
    if (!VD_TRY()) { viol("*", "parsing short string literals: memory fault"); return 1; }
    for (len = 1; len <= 3; len++)
        for (b1 = 1; b1 <= 255; b1++) {
            vd_tick();
            if (!copy[b1]) continue;
            for (b2 = (len >= 2 ? 1 : 0); b2 <= (len >= 2 ? 255u : 0u); b2++) {
                unsigned step3 = 1, start3 = (len >= 3 ? 1 : 0);
                if (len >= 2 && !copy[b2]) continue;
                if (len == 3 && !full && !(b1 >= 0xC0 || b1 < 0x21 || b1 == 0x7F)) { step3 = 11; start3 = 1 + (b1 + b2) % 11; }
                for (b3 = start3; b3 <= (len >= 3 ? 255u : 0u); b3 += step3) {
                    cJSON *t; int rfc; const char *end = NULL;
                    if (len >= 3 && !copy[b3]) continue;
                    lit[0] = '"'; lit[1] = (unsigned char)b1; lit[2] = (unsigned char)b2; lit[3] = (unsigned char)b3; lit[1 + len] = '"'; lit[2 + len] = 0;
                    rfc = (valid[b1] || b1 >= 0x80) && (len < 2 || valid[b2] || b2 >= 0x80) && (len < 3 || valid[b3] || b3 >= 0x80) && u8ok(lit + 1, len);   /* ASCII validity from the table, UTF-8 well-formedness as in JsonText.tla */
                    al_window(0);
                    t = ((b1 ^ b2 ^ b3) & 1) ? cJSON_ParseWithLength((const char*)lit, (size_t)len + 2) : cJSON_ParseWithOpts((const char*)lit, &end, vb_truthy(1, b3)); table_literals++;
                    if (!t || !cJSON_IsString(t) || !t->valuestring || strlen(t->valuestring) != (size_t)len || memcmp(t->valuestring, lit + 1, (size_t)len)) {
                        if (rfc) viol("C02", "the string literal with bytes %02x %02x %02x (length %d), valid RFC 8259, is %s", b1, b2, b3, len, t ? "decoded to different bytes" : "rejected");
                        else VD.drift++;
                    }
                    cJSON_Delete(t);
                    if (al_live != 0) { viol("C01 C03", "%ld block(s) remain allocated after parsing and deleting the string literal %02x %02x %02x", al_live, b1, b2, b3); al_case_begin(); }
                    if (VD.violations > 20) goto done;
                }
            }
        }
done:
    VD_END();
    return 1;
}
/* scale cases: string bodies made of one unit of the decoder's unit table repeated n times (n up to thousands: the output buffer is sized from
 * the input length, so escapes over-reserve kilobytes), followed by 0..15 plain bytes; as a value and as a key; every entry point; the decoded bytes
 * must be the concatenation of the unit decodings, the terminator must be where strlen expects it (the block is followed by a red zone of non-zero
 * bytes), the tree prints and is released completely; with --failinject every allocator request of such a parse is refused in turn (C08) */
static long scale_literals;
static void scale_check(const unsigned char *text, size_t tl, const unsigned char *expect, size_t el, int askey, const char *what)
{
    int ep; long live0 = al_live;
    for (ep = 0; ep < 3; ep++) {
        cJSON *t; const char *end = NULL; const char *got;
        if (!VD_TRY()) { al_in_call = 0; viol("*", "parsing %s: memory fault", what); return; }
        al_in_call = 1; al_window(0);
        t = ep == 0 ? cJSON_ParseWithLength((const char*)text, tl) : ep == 1 ? cJSON_Parse((const char*)text) : cJSON_ParseWithOpts((const char*)text, &end, vb_truthy(1, (unsigned long)tl));
        al_in_call = 0; scale_literals++;
        if (!t) viol("C02", "%s: a valid RFC 8259 text is rejected (entry point %d)", what, ep);
        else {
            cJSON *node = t->child; got = node ? (askey ? node->string : node->valuestring) : NULL;
            if (!node || !got) viol("C02", "%s: no %s in the returned tree", what, askey ? "key" : "string");
            else if (strlen(got) != el) viol("C02 C01", "%s: the decoded %s has %zu bytes, expected %zu (terminator missing or misplaced)", what, askey ? "key" : "string", strlen(got), el);
            else if (memcmp(got, expect, el)) viol("C02", "%s: decoded bytes differ", what);
            { char *p = cJSON_PrintUnformatted(t); if (!p) viol("C01", "%s: the returned tree cannot be printed", what); cJSON_free(p); }
            cJSON_Delete(t);
        }
        if (al_live != live0) { viol("C01 C03", "%s: %ld block(s) remain allocated after parse and delete", what, al_live - live0); al_case_begin(); live0 = al_live; }
        if (al_bad_free) { viol("C01", "%s: invalid release", what); al_bad_free = 0; }
        if (!al_check_redzones()) { viol("*", "%s: the parser wrote beyond the end of a block it allocated", what); al_overflow = 0; }
        VD_END();
    }
    if (do_failinject) failinject((const char*)text, tl, 0);
}
static void do_scale_parse(const jv *units, int full)
{
    static const int NS[] = { 7, 33, 170, 300, 700, 1100, 2056, 2072, 3000, 5000, 9000 }; size_t ui, ni; int tail, askey;
    if (!units) return;
    al_case_begin();
    for (ui = 0; ui < units->n; ui++) {
        const jv *ub = jv_at(units->e[ui], 0), *db = jv_at(units->e[ui], 1); size_t ul = ub->n, dl = db->n, k;
        if (ul < 2 && !full) continue;          /* single raw bytes are covered by the byte table */
        for (ni = 0; ni < sizeof(NS) / sizeof(NS[0]); ni++) {
            int n = NS[ni]; if (!full && n > 3000) continue;
            vd_tick();
            for (tail = 0; tail < 16; tail += (full ? 1 : 8)) for (askey = 0; askey < 2; askey++) {
                size_t tl = 0, el = 0, cap = ul * (size_t)n + 64; unsigned char *text = (unsigned char*)malloc(cap), *exp = (unsigned char*)malloc(dl * (size_t)n + 64); int i; char what[200];
                text[tl++] = askey ? '{' : '['; text[tl++] = '"';
                for (i = 0; i < n; i++) { for (k = 0; k < ul; k++) text[tl++] = (unsigned char)jv_int(ub->e[k]); for (k = 0; k < dl; k++) exp[el++] = (unsigned char)jv_int(db->e[k]); }
                for (i = 0; i < tail; i++) { text[tl++] = (unsigned char)('a' + i); exp[el++] = (unsigned char)('a' + i); }
                text[tl++] = '"'; if (askey) { text[tl++] = ':'; text[tl++] = '1'; text[tl++] = '}'; } else text[tl++] = ']';
                text[tl] = 0;
                snprintf(what, sizeof(what), "a %s of %d units (unit %zu of the table, %zu bytes each) and %d plain bytes", askey ? "key" : "string", n, ui + 1, ul, tail);
                scale_check(text, tl, exp, el, askey, what);
                free(text); free(exp);
                if (VD.violations > 20) return;
            }
        }
    }
    /* mixed bodies: every ordered pair and triple of units, with and without plain bytes behind them (a decoder that is unit-wise carries no state from one
     * unit into the next: lemma UnitWise of MC_Parse) */
    {
        size_t a, b, c, nu = units->n; int tl3, askey2;
        for (a = 0; a < nu; a++) for (b = 0; b < nu; b++) for (c = 0; c <= nu; c++) for (tl3 = 0; tl3 < 2; tl3++) for (askey2 = 0; askey2 < 2; askey2++) {
            unsigned char text[160], exp[160]; size_t tl = 0, el = 0, k, q; size_t pick[3]; int np = (c == nu) ? 2 : 3; char what[160];
            if (!full && np == 3 && ((a * 31 + b * 7 + c) % 3) != 0) continue;          /* a third of the triples in the quick tier */
            pick[0] = a; pick[1] = b; pick[2] = c;
            text[tl++] = askey2 ? '{' : '['; text[tl++] = '"';
            for (q = 0; q < (size_t)np; q++) { const jv *ub = jv_at(units->e[pick[q]], 0), *db = jv_at(units->e[pick[q]], 1);
                for (k = 0; k < ub->n && tl < 120; k++) text[tl++] = (unsigned char)jv_int(ub->e[k]); for (k = 0; k < db->n && el < 120; k++) exp[el++] = (unsigned char)jv_int(db->e[k]); }
            if (tl3) { memcpy(text + tl, "xyz", 3); tl += 3; memcpy(exp + el, "xyz", 3); el += 3; }
            text[tl++] = '"'; if (askey2) { text[tl++] = ':'; text[tl++] = '1'; text[tl++] = '}'; } else text[tl++] = ']';
            text[tl] = 0;
            snprintf(what, sizeof(what), "a %s made of units %zu, %zu%s of the table%s", askey2 ? "key" : "string", a + 1, b + 1, np == 3 ? " and a third" : "", tl3 ? " followed by xyz" : "");
            scale_check(text, tl, exp, el, askey2, what);
            if (VD.violations > 20) return;
            if (((b * (nu + 1) + c) & 31) == 0 && !tl3 && !askey2) { if (al_live == 0) al_case_begin(); vd_tick(); }      /* keep the block registry short */
        }
        vd_tick();
    }
}

/* numeric sweep (C02): seeded families of RFC 8259 number literals; every (literal, valuedouble, valueint) goes to the correctly rounding oracle */
static uint64_t lcg_state = 0x243F6A8885A308D3ULL;
static unsigned lcg(unsigned n) { lcg_state = lcg_state * 6364136223846793005ULL + 1442695040888963407ULL; return (unsigned)((lcg_state >> 33) % n); }
static void digits(char **p, int n, int nolead0) { int i; for (i = 0; i < n; i++) *(*p)++ = (char)('0' + ((i == 0 && nolead0) ? 1 + lcg(9) : lcg(10))); }
static void do_numsweep(long count)
{
    long i; char lit[128];
    al_case_begin();
    if (!VD_TRY()) { viol("*", "numeric sweep: memory fault"); return; }
    for (i = 0; i < count; i++) {
        char *p = lit; cJSON *t; int fam = (int)(i % 8);
        if ((i & 1023) == 0) vd_tick();
        if (lcg(4) == 0) *p++ = '-';
        switch (fam) {
            case 0: *p++ = '0'; *p++ = '.'; digits(&p, 1 + (int)lcg(17), 0); break;                                                     /* 0.ddd */
            case 1: digits(&p, 1 + (int)lcg(3), 1); *p++ = '.'; digits(&p, 1 + (int)lcg(15), 0); break;                               /* dd.ddd */
            case 2: digits(&p, 1 + (int)lcg(17), 1); *p++ = lcg(2) ? 'e' : 'E'; if (lcg(3)) *p++ = lcg(2) ? '-' : '+'; digits(&p, 1, 0); if (lcg(2)) digits(&p, 1, 0); break;   /* small exponents */
            case 3: digits(&p, 1, 1); *p++ = '.'; digits(&p, 1 + (int)lcg(17), 0); *p++ = 'e'; *p++ = lcg(2) ? '-' : '+'; p += sprintf(p, "%u", lcg(309)); break;
            case 4: digits(&p, 19 + (int)lcg(20), 1); if (lcg(2)) { *p++ = '.'; digits(&p, 1 + (int)lcg(10), 0); } break;                  /* more digits than a double holds */
            case 5: { static const char *const EX[] = { "4294967296", "4294967297", "4294967318", "2147483648", "2147483649", "9223372036854775808", "18446744073709551616", "18446744073709551621", "65536", "65541", "32773", "12884901890", "10000000000", "4294967295" };
                      digits(&p, 1 + (int)lcg(4), 1); if (lcg(2)) { *p++ = '.'; digits(&p, 1 + (int)lcg(3), 0); } *p++ = lcg(2) ? 'e' : 'E'; if (lcg(3)) *p++ = lcg(2) ? '-' : '+'; p += sprintf(p, "%s", EX[lcg(sizeof(EX) / sizeof(EX[0]))]); break; }   /* exponents beyond 16 / 32 / 64 bits */
            case 7: digits(&p, 11 + (int)lcg(8), 1); if (lcg(4) == 0) { *p++ = '.'; *p++ = '0'; } break;                                   /* plain integers of 11 - 18 digits: around 2^53, where a double stops holding every integer */
            default: digits(&p, 1 + (int)lcg(10), 1); if (lcg(2)) { *p++ = '.'; digits(&p, 1 + (int)lcg(6), 0); } break;               /* short, everyday */
        }
        *p = 0;
        al_window(0);
        errno = (i & 4) ? ERANGE : 0;                 /* what an earlier conversion left in errno changes nothing */
        if ((i % 3) == 2) {                            /* the literal inside a document with more than 64 bytes behind it */
            static char doc[512]; cJSON *n; int dl = snprintf(doc, sizeof(doc), "{\"v\":[%s,\"%s\"],\"w\":%s}", lit, "pppppppppppppppppppppppppppppppppppppppppppppppppppppppppppppppppppppppp", lit);
            t = (i & 1) ? cJSON_Parse(doc) : cJSON_ParseWithLength(doc, (size_t)dl); sweep_numbers++;
            n = t ? cJSON_GetArrayItem(cJSON_GetObjectItemCaseSensitive(t, "v"), 0) : NULL;
            if (!n || !cJSON_IsNumber(n) || !cJSON_IsNumber(cJSON_GetObjectItemCaseSensitive(t, "w"))) viol("C02", "a document holding the RFC 8259 number literal %s is %s", lit, t ? "decoded without that number" : "rejected");
            else { numobs_add(lit, n->valuedouble, n->valueint); n = cJSON_GetObjectItemCaseSensitive(t, "w"); numobs_add(lit, n->valuedouble, n->valueint); }
        } else {
            t = (i & 1) ? cJSON_Parse(lit) : cJSON_ParseWithLength(lit, (size_t)(p - lit)); sweep_numbers++;
            if (!t || !cJSON_IsNumber(t)) viol("C02", "the RFC 8259 number literal %s is %s", lit, t ? "not decoded to a number" : "rejected");
            else numobs_add(lit, t->valuedouble, t->valueint);
        }
        errno = 0;
        cJSON_Delete(t);
        if (VD.violations > 20) break;
    }
    if (al_live != 0) viol("C01", "%ld block(s) remain allocated after the numeric sweep", al_live);
    VD_END();
}

static int do_case(const jv *line)
{
    const jv *bytes = jv_at(line, 1); size_t n = bytes->n, k; static unsigned char t[65536]; int hasnul = 0, drift = 0, where;
    if (n + 1 > sizeof(t)) return -1;
    for (k = 0; k < n; k++) { t[k] = (unsigned char)jv_int(bytes->e[k]); if (!t[k]) hasnul = 1; }
    t[n] = 0;
    al_case_begin();
    for (k = 2; k <= 5; k++) { const char *c = jv_at(jv_at(line, k), 4)->s; cls_count[c[0] == 'A' ? 0 : (c[0] == 'R' || c[0] == 'T' || c[0] == 'G') ? 1 : 2]++; }
    for (where = 0; where < 3; where++) {
        int rnt;
        for (rnt = 0; rnt < 2; rnt++) {
            const jv *ev = jv_at(line, 2 + (size_t)rnt), *zv = jv_at(line, 4 + (size_t)rnt);
            cJSON *keep = NULL; char *buf;
            /* exact-length buffer */
            buf = place(t, n, where);
            drift |= check_call(EP_LENOPTS, buf, n, rnt, ev, where, &keep);
            drift |= check_call(EP_LENOPTS_NOEND, buf, n, rnt, ev, where, &keep);
            if (!rnt) drift |= check_call(EP_LEN, buf, n, 0, ev, where, &keep);
            if (do_failinject && where == 0) failinject(buf, n, rnt);
            cJSON_Delete(keep); keep = NULL;
            if (where == 2) continue;      /* placement 2: a zero byte just OUTSIDE the declared length (exact-length variants only) */
            /* with a terminating zero inside the declared length */
            buf = place(t, n + 1, where);
            drift |= check_call(EP_LENOPTS, buf, n + 1, rnt, zv, where, &keep);
            if (!rnt) drift |= check_call(EP_LEN, buf, n + 1, 0, zv, where, &keep);
            if (!hasnul) {       /* the string entry points see the same buffer */
                drift |= check_call(EP_OPTS, buf, n + 1, rnt, zv, where, &keep);
                drift |= check_call(EP_OPTS_NOEND, buf, n + 1, rnt, zv, where, &keep);
                if (!rnt) drift |= check_call(EP_PARSE, buf, n + 1, 0, zv, where, &keep);
            }
            cJSON_Delete(keep);
        }
    }
    if (al_live != 0) viol("C01", "%ld block(s) still allocated after all trees of the case were deleted", al_live);
    if (!default_hooks && al_libc_malloc_calls + al_libc_free_calls + al_libc_realloc_calls) {
        viol("C14", "while custom allocation hooks are installed the parser called the C allocator directly (%ld malloc, %ld free, %ld realloc)", al_libc_malloc_calls, al_libc_free_calls, al_libc_realloc_calls);
        al_libc_malloc_calls = al_libc_free_calls = al_libc_realloc_calls = 0;
    }
    if (!al_check_redzones()) { viol("*", "the parser wrote beyond the end of a block it allocated"); al_overflow = 0; }
    if (drift) VD.drift++;
    return 1;
}

/* ------------------------------------------------------------------ nesting: special cases on a small stack */
typedef struct { const char *buf; size_t len; cJSON *res; } deepjob;
static void *deep_thread(void *arg) { deepjob *j = (deepjob*)arg; j->res = cJSON_ParseWithLength(j->buf, j->len); return NULL; }
static void deep_cases(void)
{
#ifndef VD_LIMITS
    /* depth levels of open (after an optional prefix that adds one level and ends in a string whose last character is an escaped backslash / a quote /
     * a bracket), a leaf in the innermost container when it is closed; expect: accepted iff the total depth is within CJSON_NESTING_LIMIT = 1000 */
    static const struct { int depth; char open, close; int expect; int leaf; const char *prefix; } T[] = {
        { 999, '[', ']', 1, 0, "" }, { 1000, '[', ']', 1, 0, "" }, { 1001, '[', ']', 0, 0, "" }, { 100000, '[', 0, 0, 0, "" }, { 100000, '{', 0, 0, 0, "" }, { 1000, '{', '}', 1, 1, "" }, { 1001, '{', '}', 0, 1, "" },
        { 1000, '[', ']', 1, 1, "" }, { 1001, '[', ']', 0, 1, "" }, { 999, '[', ']', 1, 1, "[\"\\\\\"," }, { 1000, '[', ']', 0, 1, "[\"\\\\\"," }, { 1500, '[', ']', 0, 0, "[\"\\\\\"," },
        { 1000, '{', '}', 0, 1, "{\"k\\\\\":" }, { 999, '{', '}', 1, 1, "{\"k\\\\\":" }, { 1000, '[', ']', 0, 1, "[\"a\\\"\"," }, { 1000, '[', ']', 0, 1, "[\"]]]]\"," }, { 999, '[', ']', 1, 1, "[\"[[[[\"," },
        { 1000, '[', ']', 0, 0, "[\"\\\\\\\"]\"," }, { 60000, '[', 0, 0, 0, "[\"\\\\\"," } };
    size_t i;
    for (i = 0; i < sizeof(T) / sizeof(T[0]); i++) {
        size_t cap = (size_t)T[i].depth * 8 + 64, n = 0; char *s = (char*)malloc(cap); int d, extra = T[i].prefix[0] ? 1 : 0;
        pthread_t th; pthread_attr_t at; deepjob job;
        memcpy(s, T[i].prefix, strlen(T[i].prefix)); n = strlen(T[i].prefix);
        for (d = 0; d < T[i].depth; d++) { if (T[i].open == '[') s[n++] = '['; else { memcpy(s + n, "{\"a\":", 5); n += 5; } }
        if (T[i].close) { if (T[i].open == '{' || T[i].leaf) s[n++] = '1'; for (d = 0; d < T[i].depth; d++) s[n++] = T[i].close; if (extra) s[n++] = (T[i].prefix[0] == '[') ? ']' : '}'; }
        al_case_begin();
        job.buf = s; job.len = n; job.res = NULL;
        pthread_attr_init(&at); pthread_attr_setstacksize(&at, (size_t)4 << 20);      /* 4 MiB: 4 KiB per admitted level, far less than 100 000 levels of unbounded recursion need (a property-preserving parser with larger frames ran out of 512 KiB) */
        VD.cases++;
        if (VD_TRY()) {
            pthread_create(&th, &at, deep_thread, &job); pthread_join(th, NULL);
            if ((job.res != NULL) != (T[i].expect != 0)) viol(T[i].expect ? "C02" : "C03", "nesting depth %d with '%c' after the prefix %s: %s", T[i].depth, T[i].open, T[i].prefix, job.res ? "accepted beyond CJSON_NESTING_LIMIT" : "rejected within CJSON_NESTING_LIMIT");
            if (job.res) { char *p = cJSON_PrintUnformatted(job.res), *q = cJSON_Print(job.res), *r = cJSON_PrintBuffered(job.res, 16, 1);
                if (!p || !q || !r) viol("C01 C04 C05", "a tree nested %d deep, which the parser accepted, cannot be printed (%s%s%s returned NULL)", T[i].depth + extra, p ? "" : "PrintUnformatted ", q ? "" : "Print ", r ? "" : "PrintBuffered");
                else { cJSON *back = cJSON_Parse(p); if (!back) viol("C04", "the text printed for a tree nested %d deep does not parse back", T[i].depth + extra); cJSON_Delete(back);
                       { size_t L = strlen(p); char *pb = (char*)malloc(L + 8); if (!cJSON_PrintPreallocated(job.res, pb, (int)L + 6, 0) || strcmp(pb, p)) viol("C09 C05", "cJSON_PrintPreallocated fails or differs on a tree nested %d deep", T[i].depth + extra); free(pb); } }
                cJSON_free(p); cJSON_free(q); cJSON_free(r); cJSON_Delete(job.res); }
            if (al_live != 0) viol(T[i].expect ? "C01 C07" : "C03 C01", "nesting depth %d: %ld block(s) remain allocated after the %s", T[i].depth, al_live, T[i].expect ? "accepted tree was printed and deleted" : "text was rejected");
            VD_END();
        } else viol("*", "nesting depth %d with '%c' after the prefix %s: crash (stack exhaustion?)", T[i].depth, T[i].open, T[i].prefix);
        free(s);
    }
#endif
}

/* ------------------------------------------------------------------ breadth: many small containers / values side by side in a shallow text.
 * The grammar of JsonText.tla bounds DEPTH only (G's depth argument is passed down, never accumulated across siblings); k siblings of any kind are one
 * level.  Texts are written in the printer's unformatted layout, so the expected tree is checked twice: by walking it (k children of the element's shape)
 * and by printing it back (byte-identical). */
static long breadth_cases_run;
static void breadth_cases(void)
{
    static const struct { const char *elem; int type; int kids; } E[] = { { "[]", cJSON_Array, 0 }, { "{}", cJSON_Object, 0 }, { "[1]", cJSON_Array, 1 }, { "{\"a\":1}", cJSON_Object, 1 },
        { "\"s\"", cJSON_String, 0 }, { "1", cJSON_Number, 0 }, { "null", cJSON_NULL, 0 }, { "\"\\\\\"", cJSON_String, 0 } };
    static const int K[] = { 998, 999, 1000, 1001, 1200, 2600 };
    size_t e, ki; int asobj, wrap;
    for (e = 0; e < sizeof(E) / sizeof(E[0]); e++) for (ki = 0; ki < sizeof(K) / sizeof(K[0]); ki++) for (asobj = 0; asobj < 2; asobj++) for (wrap = 0; wrap < 2; wrap++) {
        int k = K[ki], i, depth = 1 + wrap + (E[e].type == cJSON_Array || E[e].type == cJSON_Object ? 1 : 0); size_t el = strlen(E[e].elem), cap = (size_t)k * (el + 12) + 16, n = 0; char *s; cJSON *t, *c, *top; int cnt = 0, bad = 0; char *p;
        if (depth > CJSON_NESTING_LIMIT) continue;
        if ((ki + e + (size_t)asobj) % 2 && k != 1000 && k != 1001) continue;           /* half of the off-limit sizes */
        s = (char*)malloc(cap);
        if (wrap) s[n++] = '[';
        s[n++] = asobj ? '{' : '[';
        for (i = 0; i < k; i++) { if (i) s[n++] = ','; if (asobj) n += (size_t)sprintf(s + n, "\"k%d\":", i); memcpy(s + n, E[e].elem, el); n += el; }
        s[n++] = asobj ? '}' : ']';
        if (wrap) s[n++] = ']';
        s[n] = 0;
        al_case_begin(); VD.cases++; breadth_cases_run++;
        if (!VD_TRY()) { viol("*", "%d elements %s side by side: memory fault in the parser", k, E[e].elem); free(s); continue; }
        t = (ki % 2) ? cJSON_ParseWithLength(s, n) : cJSON_Parse(s);
        if (!t) viol("C02", "a valid text of nesting depth %d with %d elements %s side by side (%s%s) is rejected", depth, k, E[e].elem, asobj ? "object members" : "array elements", wrap ? ", inside an array" : "");
        else {
            top = wrap ? t->child : t;
            if (!top || (top->type & 0xFF) != (asobj ? cJSON_Object : cJSON_Array) || (wrap && (top->next || (t->type & 0xFF) != cJSON_Array))) bad = 1;
            else for (c = top->child; c; c = c->next) { int kc = 0; cJSON *g; cnt++; for (g = c->child; g; g = g->next) kc++; if ((c->type & 0xFF) != E[e].type || kc != E[e].kids) bad = 1; if (cnt > k) break; }
            if (bad || cnt != k) viol("C02", "%d elements %s side by side: the tree has %d children / a child of another shape", k, E[e].elem, cnt);
            p = cJSON_PrintUnformatted(t);
            if (p) { char *r = p, *w = p; for (; *r; r++) if (*r != ' ' && *r != '\n' && *r != '\t' && *r != '\r') *w++ = *r; *w = 0; }      /* no string of these texts holds a blank: layout is not demanded */
            if (!p || strcmp(p, s)) viol("C02 C04", "%d elements %s side by side: the tree prints as something else than the text it was parsed from", k, E[e].elem);
            cJSON_free(p); cJSON_Delete(t);
        }
        if (al_live != 0) viol("C01 C03", "%d elements %s side by side: %ld block(s) remain allocated", k, E[e].elem, al_live);
        VD_END(); vd_tick(); free(s);
    }
}

/* A release hook that itself parses (and fails on) a private text: allowed - the library has no state but the hooks and the error position.
 * The outer, failing parse must still report ITS position: inside its own buffer, equal to cJSON_GetErrorPtr() (C10); the same ordering matters
 * when another thread parses in between (C20). */
static int reent_armed, reent_depth; static long reent_inner;
static void reent_free(void *p)
{
    if (reent_armed && !reent_depth && p) { cJSON *x; reent_depth = 1; x = cJSON_Parse("[\"inner\", tru"); if (x) cJSON_Delete(x); reent_inner++; reent_depth = 0; }
    al_free(p);
}
static void reentrancy_cases(void)
{
    static const char *T[] = { "[1,2,{\"a\":[3,4]}] x", "{\"k\":[1,2,3],\"l\":\"text\"} ]", "[1,2,", "[\"ab\",{\"c\":nul}]", "[[1,2],[3,4]] 5",
        "[\"\\u00e9\",{\"\\u0041k\":\"x\\ud83d\\ude00\\n\"}]", "{\"a\\u20ac\":[\"\\u0001\",\"plain\"]}", "[\"\\u00e9\"] ", "[1,[2,{\"k\":\"v\"}]]" }; size_t i; cJSON_Hooks h, back;
    h.malloc_fn = al_malloc; h.free_fn = reent_free; back.malloc_fn = al_malloc; back.free_fn = al_free;
    for (i = 0; i < sizeof(T) / sizeof(T[0]); i++) {
        int rnt; for (rnt = 0; rnt < 2; rnt++) {
            const char *end = (const char*)(uintptr_t)1, *g; cJSON *t; size_t L = strlen(T[i]);
            al_case_begin(); cJSON_InitHooks(&h); VD.cases++;
            if (!VD_TRY()) { reent_armed = 0; cJSON_InitHooks(&back); viol("*", "parse with a release hook that parses: memory fault"); continue; }
            reent_armed = 1; t = cJSON_ParseWithLengthOpts(T[i], L + 1, &end, vb_truthy(rnt, i)); reent_armed = 0;
            g = cJSON_GetErrorPtr();
            if (!t) {
                /* the hook's parse stands for another thread's parse at that point (C20 quantifies over all interleavings); C10 itself is quantified
                 * over buffers and flags, not over hooks that re-enter the library, so it is not claimed for C10 */
                if (end < T[i] || end > T[i] + L) viol("C20", "a failing parse during which another parse took place (release hook) reports an error position outside its own buffer");
                else if (g != end) VD.drift++;
            } else {
                if (g != NULL) VD.drift++;       /* the hook's own failing parse set it after the outer call had cleared it: no listed property covers this */
                if (end < T[i] || end > T[i] + L) viol("C10 C20", "a successful parse reports a parse end outside its buffer");
            }
            cJSON_Delete(t);
            VD_END();
            cJSON_InitHooks(&back);
            if (al_live != 0) viol("C01 C03", "%ld block(s) remain allocated after a parse with a re-entrant release hook", al_live);
        }
    }
}

int vd_parse_main(int argc, char **argv);
int vd_parse_main(int argc, char **argv)
{
    char *line = NULL; size_t cap = 0; ssize_t len; const char *stats = NULL, *numout = NULL; int k; char extra[600];
    cJSON_Hooks hooks;
    for (k = 0; k < argc; k++) {
        if (!strcmp(argv[k], "--stats") && k + 1 < argc) stats = argv[k + 1];
        if (!strcmp(argv[k], "--numobs") && k + 1 < argc) numout = argv[k + 1];
        if (!strcmp(argv[k], "--failinject")) do_failinject = 1;
        if (!strcmp(argv[k], "--fulltable")) full_table = 1;
        if (!strcmp(argv[k], "--numsweep") && k + 1 < argc) sweep_count = atol(argv[k + 1]);
        if (!strcmp(argv[k], "--defaulthooks")) default_hooks = 1;
    }
    hooks.malloc_fn = al_malloc; hooks.free_fn = al_free;
    if (default_hooks) cJSON_InitHooks(NULL); else cJSON_InitHooks(&hooks);     /* default: the library's own malloc/free/realloc, redirected to the tracking allocator */
    region_init();
    vd_install_handlers();
    VD.curline = (char*)"# driver-built cases: nesting at the limit, siblings beyond the limit"; deep_cases();
    breadth_cases(); VD.curline = NULL;
    if (!default_hooks) reentrancy_cases();
    if (default_hooks) cJSON_InitHooks(NULL); else cJSON_InitHooks(&hooks);
    while ((len = getline(&line, &cap, stdin)) > 0 || (len < 0 && errno == EINTR && !feof(stdin) && (clearerr(stdin), 1))) {
        char *copy; jv *v; int rc;
        if (len <= 0) continue;
        if (line[0] != '"') { if (VD.passthrough) fputs(line, VD.passthrough); continue; }
        copy = strdup(line); jv_reset(); v = jv_parse_line(line);
        if (v && v->t == JV_ARR && v->n >= 3 && jv_is_str(jv_at(v, 0), "Y")) {
            VD.curline = copy; VD.cases++;
            if (do_strtable(v, full_table) < 0) { fprintf(stderr, "vdrv: cannot interpret string table\n"); return 2; }
            if (v->n >= 4) do_scale_parse(jv_at(v, 3), full_table);
            if (sweep_count) do_numsweep(sweep_count);
            VD.nontrivial++; VD.curline = NULL; free(copy); continue; }
        if (!v || v->t != JV_ARR || v->n < 6 || !jv_is_str(jv_at(v, 0), "P")) { if (VD.passthrough) fputs(copy, VD.passthrough); free(copy); continue; }
        VD.curline = copy; VD.cases++;
        rc = do_case(v);
        if (rc < 0) { fprintf(stderr, "vdrv: cannot interpret line %s\n", copy); return 2; }
        VD.nontrivial++;
        if (VD.samplef && VD.samples < 6 && (VD.cases % 3001 == 17)) { fputs(copy, VD.samplef); VD.samples++; }
        vd_tick(); VD.curline = NULL; free(copy);
    }
    if (numout) numobs_dump(numout);
    snprintf(extra, sizeof(extra), "\"variants_must_accept\": %ld, \"variants_must_reject\": %ld, \"variants_open\": %ld, \"entry_point_calls\": %ld, \"accepted\": %ld, \"rejected\": %ld, \"other_property_violations\": %ld, \"distinct_number_observations\": %zu, \"failinject_runs\": %ld, \"short_string_literals_against_table\": %ld, \"number_literals_swept\": %ld, \"scale_string_parses\": %ld",
             cls_count[0], cls_count[1], cls_count[2], ep_calls, accepted, rejected, VD.by_kind[0], nobs_n, failinj_runs, table_literals, sweep_numbers, scale_literals);
    if (stats) vd_write_stats(stats, extra);
    return VD.violations ? 1 : 0;
}
