/* threads mode (C20, dynamic part): N threads run call sequences of the documented classes on thread-private data,
 * first alone (reference results), then all together without any synchronisation after the start barrier.
 * Built with -fsanitize=thread; the check script reads ThreadSanitizer's reports. Results must equal the solo runs. */
#include <pthread.h>
#include "base.h"
#include "cJSON.h"
#include "cJSON_Utils.h"

enum { K_PARSE_OK, K_PARSE_FAIL, K_PRINT, K_EDIT, K_COMPARE, K_DUP, K_MINIFY, K_PATCH, K_DELETE, K_COUNT };
static const char *KN[] = { "parse_ok", "parse_fail", "print", "create_edit", "compare", "duplicate", "minify", "patch_utils", "delete" };

static uint64_t hs(uint64_t h, const char *s) { for (; s && *s; s++) { h ^= (unsigned char)*s; h *= 1099511628211ULL; } return h; }

static uint64_t run_class(int k, int tid, int round)
{
    uint64_t h = 1469598103934665603ULL ^ (uint64_t)k; char buf[512]; cJSON *a, *b, *c; char *s; int i;
    switch (k) {
        case K_PARSE_OK:
            snprintf(buf, sizeof(buf), "{\"t\":%d,\"r\":[%d,1.5,-2e3,\"x\\u00e9\\n\"],\"n\":null,\"b\":true}", tid, round % 7);
            a = cJSON_Parse(buf); s = cJSON_Print(a); h = hs(h, s); cJSON_free(s); cJSON_Delete(a); break;
        case K_PARSE_FAIL:
            snprintf(buf, sizeof(buf), "[%d, {\"a\": tru", tid); a = cJSON_Parse(buf); h ^= (a != NULL); cJSON_Delete(a);
            a = cJSON_ParseWithLength("[1,2", 4); h ^= (uint64_t)(a != NULL) << 1; cJSON_Delete(a); break;
        case K_PRINT:
            a = cJSON_CreateArray(); for (i = 0; i < 40; i++) { cJSON_AddItemToArray(a, cJSON_CreateNumber(tid * 1000.5 + i / 3.0)); cJSON_AddItemToArray(a, cJSON_CreateString("some text to make the buffer grow")); }
            s = cJSON_Print(a); h = hs(h, s); cJSON_free(s); s = cJSON_PrintUnformatted(a); h = hs(h, s); cJSON_free(s);
            s = cJSON_PrintBuffered(a, 5, 1); h = hs(h, s); cJSON_free(s); h ^= (uint64_t)cJSON_PrintPreallocated(a, buf, (int)sizeof(buf), 0); cJSON_Delete(a); break;
        case K_EDIT:
            a = cJSON_CreateObject(); cJSON_AddNumberToObject(a, "n", tid); cJSON_AddStringToObject(a, "s", "v"); b = cJSON_CreateArray(); cJSON_AddItemToObject(a, "arr", b);
            for (i = 0; i < 5; i++) cJSON_AddItemToArray(b, cJSON_CreateNumber(i)); cJSON_InsertItemInArray(b, 2, cJSON_CreateTrue()); cJSON_DeleteItemFromArray(b, 0);
            cJSON_ReplaceItemInObject(a, "s", cJSON_CreateNull()); c = cJSON_DetachItemFromObject(a, "n"); cJSON_AddItemToArray(b, c); cJSON_SetValuestring(cJSON_AddStringToObject(a, "z", "abc"), "a longer string");
            s = cJSON_PrintUnformatted(a); h = hs(h, s); cJSON_free(s); cJSON_Delete(a); break;
        case K_COMPARE:
            snprintf(buf, sizeof(buf), "{\"a\":[1,2,%d],\"b\":{\"c\":\"d\"}}", tid); a = cJSON_Parse(buf); b = cJSON_Parse("{\"b\":{\"c\":\"d\"},\"a\":[1,2,3]}");
            h ^= (uint64_t)cJSON_Compare(a, b, 1) | ((uint64_t)cJSON_Compare(a, a, 0) << 1); cJSON_Delete(a); cJSON_Delete(b); break;
        case K_DUP:
            a = cJSON_Parse("[[1,2,[3,{\"k\":\"v\"}]],\"s\"]"); b = cJSON_Duplicate(a, 1); h ^= (uint64_t)cJSON_Compare(a, b, 1); s = cJSON_PrintUnformatted(b); h = hs(h, s); cJSON_free(s); cJSON_Delete(a); cJSON_Delete(b); break;
        case K_MINIFY:
            snprintf(buf, sizeof(buf), "{ \"a\" : [ 1, /* c */ 2 ] , // x\n \"b c\" : \"q\\\\\" , \"t\": %d }", tid); cJSON_Minify(buf); h = hs(h, buf); break;
        case K_PATCH:
            snprintf(buf, sizeof(buf), "{\"b\":%d,\"a\":[1,2],\"c\":{\"x\":1}}", tid); a = cJSON_Parse(buf); b = cJSON_Parse("{\"a\":[1,3,4],\"c\":{\"y\":2},\"d\":null}");
            c = cJSONUtils_GeneratePatchesCaseSensitive(a, b); h ^= (uint64_t)cJSONUtils_ApplyPatchesCaseSensitive(a, c); s = cJSON_PrintUnformatted(a); h = hs(h, s); cJSON_free(s); cJSON_Delete(c);
            cJSONUtils_SortObject(a); c = cJSONUtils_GenerateMergePatchCaseSensitive(a, b); s = c ? cJSON_PrintUnformatted(c) : NULL; h = hs(h, s); cJSON_free(s); cJSON_Delete(c);
            s = cJSONUtils_FindPointerFromObjectTo(b, cJSON_GetObjectItem(cJSON_GetObjectItem(b, "c"), "y")); h = hs(h, s); cJSON_free(s); cJSON_Delete(a); cJSON_Delete(b); break;
        case K_DELETE:
            a = cJSON_Parse("{\"x\":[[],{},[[[1]]]]}"); cJSON_Delete(a); h ^= 5; break;
        default: break;
    }
    return h;
}

#define MAXT 8
#define MAXC 4
static int prog[MAXT][MAXC], proglen[MAXT], NT, ROUNDS;
static uint64_t solo[MAXT][MAXC], got[MAXT][MAXC];
static pthread_barrier_t bar;
static volatile int mismatch;
static void *worker(void *arg)
{
    int t = (int)(intptr_t)arg, r, i;
    pthread_barrier_wait(&bar);                 /* the only synchronisation: the common start */
    for (r = 0; r < ROUNDS; r++) for (i = 0; i < proglen[t]; i++) { uint64_t h = run_class(prog[t][i], t, 0); if (r == 0) got[t][i] = h; if (h != solo[t][i]) mismatch = 1; }
    return NULL;
}

int vd_threads_main(int argc, char **argv);
int vd_threads_main(int argc, char **argv)
{
    unsigned seed = 1; int sets = 20, k, s, t, i; const char *stats = NULL; long runs = 0;
    NT = 4; ROUNDS = 200;
    for (k = 0; k < argc; k++) {
        if (!strcmp(argv[k], "--stats") && k + 1 < argc) stats = argv[k + 1];
        if (!strcmp(argv[k], "--seed") && k + 1 < argc) seed = (unsigned)atoi(argv[k + 1]);
        if (!strcmp(argv[k], "--sets") && k + 1 < argc) sets = atoi(argv[k + 1]);
        if (!strcmp(argv[k], "--threads") && k + 1 < argc) NT = atoi(argv[k + 1]);
        if (!strcmp(argv[k], "--rounds") && k + 1 < argc) ROUNDS = atoi(argv[k + 1]);
    }
    if (NT > MAXT) NT = MAXT;
    srand(seed);
    for (s = 0; s < sets; s++) {
        pthread_t th[MAXT];
        for (t = 0; t < NT; t++) { proglen[t] = 1 + rand() % MAXC; for (i = 0; i < proglen[t]; i++) prog[t][i] = (s < K_COUNT && i == 0) ? (s + t) % K_COUNT : rand() % K_COUNT; }
        for (t = 0; t < NT; t++) for (i = 0; i < proglen[t]; i++) solo[t][i] = run_class(prog[t][i], t, 0);       /* reference: alone */
        mismatch = 0; pthread_barrier_init(&bar, NULL, (unsigned)NT);
        for (t = 0; t < NT; t++) pthread_create(&th[t], NULL, worker, (void*)(intptr_t)t);
        for (t = 0; t < NT; t++) pthread_join(th[t], NULL);
        pthread_barrier_destroy(&bar);
        VD.cases++; runs += (long)NT * ROUNDS;
        if (mismatch) {
            char desc[512] = ""; size_t n = 0;
            for (t = 0; t < NT; t++) { n += (size_t)snprintf(desc + n, sizeof(desc) - n, " T%d:", t); for (i = 0; i < proglen[t]; i++) n += (size_t)snprintf(desc + n, sizeof(desc) - n, "%s%s", i ? "," : "", KN[prog[t][i]]); }
            VD.curline = desc;
            vd_violation("a thread's results differ from its solo run when running concurrently with:%s", desc);
            VD.curline = NULL;
        } else VD.nontrivial++;
        if (VD.samplef && VD.samples < 4) { fprintf(VD.samplef, "threads=%d rounds=%d programs:", NT, ROUNDS); for (t = 0; t < NT; t++) { fprintf(VD.samplef, " T%d[", t); for (i = 0; i < proglen[t]; i++) fprintf(VD.samplef, "%s%s", i ? "," : "", KN[prog[t][i]]); fprintf(VD.samplef, "]"); } fprintf(VD.samplef, "\n"); VD.samples++; }
    }
    { char extra[128]; snprintf(extra, sizeof(extra), "\"program_sets\": %d, \"thread_runs\": %ld", sets, runs); if (stats) vd_write_stats(stats, extra); }
    return VD.violations ? 1 : 0;
}
