/* print mode (C04 C05 C09, print part of C08): replays ["R", tree, fmt, text, threshold] lines of MC_Print.tla.
 * Every print entry point x {custom hooks without realloc, default allocator with realloc (redirected symbols)}
 * x every initial buffer size; printing into caller buffers of every size flush against an inaccessible page. */
#include "value.h"
#include <math.h>

#define PAGE 4096
#define DATA_PAGES 1100
static unsigned char *region, *data_lo, *data_hi;
static void region_init(void)
{
    region = (unsigned char*)mmap(NULL, (DATA_PAGES + 2) * PAGE, PROT_READ | PROT_WRITE, MAP_PRIVATE | MAP_ANONYMOUS, -1, 0);
    if (region == MAP_FAILED) { perror("mmap"); _exit(2); }
    data_lo = region + PAGE; data_hi = data_lo + DATA_PAGES * PAGE;
    mprotect(region, PAGE, PROT_NONE); mprotect(data_hi, PAGE, PROT_NONE);
}

static long drift_texts, drift_recorded, failinj_runs, prealloc_calls, print_calls, inplace_calls, table_strings;
static int do_failinject, full_table;
static FILE *driftf;

static void viol(const char *prop, const char *fmt, ...)
{
    char msg[900]; va_list ap;
    va_start(ap, fmt); vsnprintf(msg, sizeof(msg), fmt, ap); va_end(ap);
    if (strstr(prop, VD.prop) == NULL && prop[0] != '*') { VD.by_kind[0]++; return; }   /* prop: the properties this observation contradicts */
    vd_violation("%s", msg);
}

static void use_custom_hooks(void) { cJSON_Hooks h; h.malloc_fn = al_malloc; h.free_fn = al_free; cJSON_InitHooks(&h); }
static void use_default_hooks(void) { cJSON_InitHooks(NULL); }    /* malloc/free/realloc of the library object are redirected to the tracking allocator */

/* removing whitespace outside strings (the C05 relation between formatted and unformatted text) */
static char *strip_ws(const char *s)
{
    char *o = (char*)malloc(strlen(s) + 1), *w = o; int in = 0, esc = 0;
    for (; *s; s++) {
        if (in) { *w++ = *s; if (esc) esc = 0; else if (*s == '\\') esc = 1; else if (*s == '"') in = 0; }
        else if (*s == ' ' || *s == '\t' || *s == '\n' || *s == '\r') continue;
        else { *w++ = *s; if (*s == '"') in = 1; }
    }
    *w = 0; return o;
}

/* round trip of C04: b is the re-parsed tree, a the original */
static int roundtrip_equal(const cJSON *a, const cJSON *b, char *why, size_t wn)
{
    const cJSON *x, *y; int ka = a->type & 0xFF, kb = b->type & 0xFF;
    if (ka == cJSON_Number && (isnan(a->valuedouble) || isinf(a->valuedouble))) { if (kb != cJSON_NULL) { snprintf(why, wn, "non-finite number did not become null"); return 0; } return 1; }
    if (ka != kb) { snprintf(why, wn, "type %d became %d", ka, kb); return 0; }
    if (ka == cJSON_Number) {
        double p = a->valuedouble, q = b->valuedouble, m = fabs(p) > fabs(q) ? fabs(p) : fabs(q);
        if (!(fabs(p - q) <= m * 2.220446049250313e-16)) { snprintf(why, wn, "number %.17g became %.17g", p, q); return 0; }
        if (p == floor(p) && fabs(p) < 1e15 && p != q) { snprintf(why, wn, "integer %.17g became %.17g", p, q); return 0; }
    }
    if (ka == cJSON_String && strcmp(a->valuestring, b->valuestring)) { snprintf(why, wn, "string bytes changed"); return 0; }
    if ((a->string == NULL) != (b->string == NULL) || (a->string && strcmp(a->string, b->string))) { snprintf(why, wn, "key changed"); return 0; }
    for (x = a->child, y = b->child; x && y; x = x->next, y = y->next) if (!roundtrip_equal(x, y, why, wn)) return 0;
    if (x || y) { snprintf(why, wn, "number of members changed"); return 0; }
    return 1;
}

static int has_raw(const cJSON *t) { const cJSON *c; if ((t->type & 0xFF) == cJSON_Raw) return 1; for (c = t->child; c; c = c->next) if (has_raw(c)) return 1; return 0; }

/* one text the library produced for tree t: judged against the L2 prediction and, where it differs, against L1 */
static void judge_text(const char *what, const cJSON *t, int fmt, const char *got, const char *expect, int cfg, const jv *line)
{
    char why[300] = "";
    if (!got) { viol("C04 C05", "%s (allocator config %d) returned NULL for a printable tree", what, cfg); return; }
    if (strcmp(got, expect) != 0) {
        /* not the predicted bytes: the text is handed to TLC (strictness, denotation) and checked for the round trip here */
        drift_texts++;
        if (driftf && drift_recorded < 400 && strlen(got) <= 1500 && !has_raw(t)) {      /* a bounded sample goes to the TLA+ grammar; every text gets the round trip below */
            drift_recorded++; const unsigned char *p; fprintf(driftf, "{\"v\":"); jv_print(driftf, jv_at(line, 1)); fprintf(driftf, ",\"fmt\":%s,\"text\":[", fmt ? "true" : "false"); for (p = (const unsigned char*)got; *p; p++) fprintf(driftf, "%s%u", p == (const unsigned char*)got ? "" : ",", *p); fprintf(driftf, "]}\n"); }
    }
    if (!has_raw(t)) {
        cJSON *back; char *again;
        al_window(0);
        back = cJSON_Parse(got);
        if (!back) { viol("C04", "%s: printed text does not parse back: %s", what, got); return; }
        if (!roundtrip_equal(t, back, why, sizeof(why))) viol("C04 C05", "%s: print then parse changes the value (%s): %s", what, why, got);      /* C05: the text decodes to another value */
        again = fmt ? cJSON_Print(back) : cJSON_PrintUnformatted(back);
        if (!again || strcmp(again, got) != 0) viol("C04", "%s: printing the re-parsed tree gives different text: %s vs %s", what, got, again ? again : "(null)");
        cJSON_free(again); cJSON_Delete(back);
    }
}

static void failinject(cJSON *t, int fmt, int cfg)
{
    /* entry points: Print / PrintUnformatted, PrintBuffered with prebuffers 0, 7, 300, 1024 and text length + 40 (the first request is then larger than the
     * default buffer: a fallback to a smaller block must not keep the refused size) */
    int ep; char *ref = fmt ? cJSON_Print(t) : cJSON_PrintUnformatted(t); size_t RL = ref ? strlen(ref) : 0;
    static const int PRE[6] = { 0, 0, 7, 300, 1024, -1 };
    for (ep = 0; ep < 6; ep++) {
        long m, k; char *s; uint64_t h0 = vb_hash(t, 0); int pre = PRE[ep] < 0 ? (int)RL + 40 : PRE[ep];
        if (ep >= 3 && RL < 200 && !(vd_salt() % 7 == 0)) continue;       /* the larger prebuffers matter for texts that outgrow the default buffer; a sample of the short ones */
        al_window(0); s = (ep == 0) ? (fmt ? cJSON_Print(t) : cJSON_PrintUnformatted(t)) : cJSON_PrintBuffered(t, pre, fmt); m = al_allocs; cJSON_free(s);
        for (k = 1; k <= m; k++) {
            long live0 = al_live;
            if (!VD_TRY()) { al_in_call = 0; viol("C08", "print (entry %d, allocator config %d) with request %ld of %ld refused: memory fault", ep, cfg, k, m); cJSON_free(ref); return; }
            al_window(k); s = (ep == 0) ? (fmt ? cJSON_Print(t) : cJSON_PrintUnformatted(t)) : cJSON_PrintBuffered(t, pre, fmt); al_fail_at = 0; failinj_runs++;
            if (!al_check_redzones()) { viol("*", "print (entry %d, prebuffer %d, config %d) with request %ld of %ld refused wrote beyond the end of a block it allocated", ep, pre, cfg, k, m); al_overflow = 0; }
            if (s) {      /* completed normally without the refused block: admitted by C08 - and then it is the normal result */
                if (ref && strcmp(s, ref)) viol("C08 C05", "print (entry %d, prebuffer %d, config %d) with request %ld of %ld refused completes with another text than it returns otherwise", ep, pre, cfg, k, m);
                cJSON_free(s); VD.drift++;
                if (al_live != live0) viol("C08", "print (entry %d, config %d) with request %ld of %ld refused (and completed) leaves %ld block(s) allocated besides the text", ep, cfg, k, m, al_live - live0);
            }
            else if (al_live != live0) viol("C08", "print (entry %d, config %d) with request %ld of %ld refused leaves %ld block(s) allocated", ep, cfg, k, m, al_live - live0);
            if (al_bad_free) { viol("C08 C14 C07", "print (entry %d, config %d) with request %ld of %ld refused: invalid release (double free)", ep, cfg, k, m); al_bad_free = 0; }
            if (vb_hash(t, 0) != h0) viol("C08", "print with a refused request modified the tree");
            VD_END();
        }
    }
    cJSON_free(ref);
}
/* trees whose text outgrows the default print buffer, under failure injection (the universes of the quick tier are short texts) */
static void failinject_long(void)
{
    int shape, fmt, cfg, i;
    for (shape = 0; shape < 3; shape++) {
        cJSON *t; char key[16];
        al_case_begin(); use_custom_hooks(); t = shape == 1 ? cJSON_CreateObject() : cJSON_CreateArray();
        for (i = 0; i < (shape == 2 ? 3 : 60); i++) {
            cJSON *c = shape == 2 ? cJSON_CreateString("0123456789 0123456789 0123456789 0123456789 0123456789 0123456789 0123456789 0123456789 0123456789 \"q\" 0123456789") : cJSON_CreateNumber(1000000 + i);
            if (shape == 1) { snprintf(key, sizeof(key), "key%d", i); cJSON_AddItemToObject(t, key, c); } else cJSON_AddItemToArray(t, c);
        }
        for (cfg = 0; cfg < 2; cfg++) { if (cfg == 0) use_custom_hooks(); else use_default_hooks(); for (fmt = 0; fmt < 2; fmt++) { VD.cases++; failinject(t, fmt, cfg); vd_tick(); } }
        use_custom_hooks(); cJSON_Delete(t);
        if (al_live != 0) viol("C08 C07", "printing long texts under refused requests leaves %ld block(s) allocated", al_live);
    }
}

static int do_case(const jv *line)
{
    const jv *tb = jv_at(line, 3); int fmt = (int)jv_int(jv_at(line, 2)); long thr = jv_int(jv_at(line, 4));
    static char expect[1 << 22]; size_t L = tb->n, k; cJSON *t; int cfg; char *ref_text = NULL; uint64_t h0; int nullvar = 0;
    if (L + 1 > sizeof(expect)) return -1;
    for (k = 0; k < L; k++) expect[k] = (char)jv_int(tb->e[k]);
    expect[L] = 0;
    al_case_begin();
    use_custom_hooks();
    t = vb_build(jv_at(line, 1));
    h0 = vb_hash(t, 0);
    for (cfg = 0; cfg < 2; cfg++) {
        long live0; long pre; char *s;
        if (cfg == 0) use_custom_hooks(); else use_default_hooks();
        live0 = al_live; al_libc_malloc_calls = al_libc_free_calls = al_libc_realloc_calls = 0;
        if (!VD_TRY()) { al_in_call = 0; viol("*", "print (allocator config %d): memory fault or hang (address %p)", cfg, (void*)vd_fault_addr); use_custom_hooks(); return 1; }
        al_in_call = 1; al_window(0);
        s = fmt ? cJSON_Print(t) : cJSON_PrintUnformatted(t); print_calls++;
        judge_text(fmt ? "cJSON_Print" : "cJSON_PrintUnformatted", t, fmt, s, expect, cfg, line);
        if (s && !ref_text) ref_text = strdup(s);
        if (s && ref_text && strcmp(s, ref_text)) viol("C04", "printed text depends on the allocator configuration");
        { char *s3; errno = ERANGE; s3 = fmt ? cJSON_Print(t) : cJSON_PrintUnformatted(t); errno = 0;      /* whatever an earlier library or libc call left in errno changes nothing */
          if (s && (!s3 || strcmp(s, s3))) viol("C04 C05", "the printed text depends on the value errno had before the call (ERANGE left by an earlier conversion): %.80s vs %.80s", s, s3 ? s3 : "(null)");
          cJSON_free(s3); }
        cJSON_free(s);
        for (pre = 0; pre <= (long)L + 3; pre += (L > 20000 && pre > 300 && pre < (long)L - 4) ? ((pre > 65000 && pre < 66000) ? 97 : 4099) : (L > 200 && pre > 4 && pre < (long)L - 4) ? 7 : 1) {
            vd_tick();
#ifdef VD_ASAN
            if (pre == 0 && cfg == 0) continue;   /* growing a zero-byte buffer by hand copies one byte out of it; not part of any listed property */
#endif
            al_window(0); s = cJSON_PrintBuffered(t, (int)pre, vb_truthy(fmt, (unsigned long)pre)); print_calls++;
            if (!s) viol("C04 C05", "cJSON_PrintBuffered(prebuffer %ld, allocator config %d) returned NULL", pre, cfg);
            else if (ref_text && strcmp(s, ref_text)) viol("C05", "cJSON_PrintBuffered(prebuffer %ld, allocator config %d) returns different bytes than cJSON_Print%s: %s", pre, cfg, fmt ? "" : "Unformatted", s);
            cJSON_free(s);
        }
        { static const long extra[] = { 64, 255, 256, 257, 1000, 4095, 4096, 4097, 5000, 16384, 70000 }; size_t e;
          for (e = 0; e < sizeof(extra) / sizeof(extra[0]); e++) {      /* far more room than needed: nothing may be cut off */
              al_window(0); s = cJSON_PrintBuffered(t, (int)((long)L + extra[e]), vb_truthy(fmt, e)); print_calls++;
              if (!s) viol("C04 C05", "cJSON_PrintBuffered(prebuffer %ld) returned NULL", (long)L + extra[e]);
              else if (ref_text && strcmp(s, ref_text)) viol("C04 C05", "cJSON_PrintBuffered(prebuffer = text length + %ld, allocator config %d) returns different bytes than cJSON_Print%s: %.80s", extra[e], cfg, fmt ? "" : "Unformatted", s);
              cJSON_free(s);
          } }
        al_in_call = 0;
        if (al_live != live0) viol("C07", "printing (allocator config %d) leaves %ld block(s) allocated after the texts were released", cfg, al_live - live0);
        if (al_bad_free) viol("C07 C14", "printing: invalid release");
        if (!al_check_redzones()) { viol("*", "printing (allocator config %d) wrote beyond the end of a block it allocated", cfg); al_overflow = 0; }
        if (cfg == 0 && (al_libc_malloc_calls + al_libc_free_calls + al_libc_realloc_calls) != 0) {
            viol("*", "with custom allocation hooks installed the library called the C allocator directly (%ld malloc, %ld free, %ld realloc): a user allocator without realloc / with foreign pointers breaks", al_libc_malloc_calls, al_libc_free_calls, al_libc_realloc_calls);
            al_libc_malloc_calls = al_libc_free_calls = al_libc_realloc_calls = 0;
        }
        if (do_failinject) failinject(t, fmt, cfg);
        VD_END();
    }
    use_custom_hooks();
    /* ownership bits on the nodes (constant keys, references) do not change a single byte */
    if (ref_text) {
        char *s2; cJSON *stack[256]; int sp = 0, pass; cJSON *c;
        for (pass = 0; pass < 2; pass++) {
            if (pass == 0) vb_stale_keys(t, (int)(vd_salt() & 3));      /* array elements that keep the key of an earlier life */
            sp = 0; stack[sp++] = t;
            while (sp) { cJSON *x = stack[--sp]; if (pass == 0) { if (x->string) x->type |= cJSON_StringIsConst; x->type |= cJSON_IsReference; } else x->type &= 0xFF; for (c = x->child; c && sp < 256; c = c->next) stack[sp++] = c; }
            if (pass == 1) vb_stale_clear(t);
            if (pass == 0 && L < 5000) {
                s2 = fmt ? cJSON_Print(t) : cJSON_PrintUnformatted(t);
                if (!s2 || strcmp(s2, ref_text)) viol("C04 C05", "with ownership flags set on the nodes and left-over keys on array elements the printed text differs: %.100s", s2 ? s2 : "(null)");
                cJSON_free(s2);
                s2 = cJSON_PrintBuffered(t, 1, fmt);
                if (!s2 || strcmp(s2, ref_text)) viol("C04 C05", "with ownership flags set on the nodes cJSON_PrintBuffered gives different text");
                cJSON_free(s2);
            }
        }
    }
    /* formatted minus whitespace = unformatted, plain integers */
    if (ref_text && fmt) {
        char *u = cJSON_PrintUnformatted(t), *st = strip_ws(ref_text);
        if (u && strcmp(u, st)) viol("C05", "formatted text minus whitespace differs from unformatted text: %s vs %s", st, u);
        cJSON_free(u); free(st);
    }
    /* an empty string held through a NULL text pointer (cJSON_CreateStringReference(NULL)) and a member without a name (cJSON_ReplaceItemViaPointer
     * puts a nameless item into an object) print as "" like their empty counterparts: the same sweep is repeated on that concretisation */
    nullvar = 0;
again_nullvar:
    /* caller buffer of every size (C09) */
    if (ref_text) {
        long n, prev_ok = 0; size_t RL = strlen(ref_text); int tv;
        /* "formatted" is any non-zero int: every rotating value of it is run over every size */
        for (tv = 0; tv < (fmt ? 4 : 1); tv++)
        for (n = 0, prev_ok = 0; n <= (long)RL + 16; n += (RL > 20000 && n > 300 && n < (long)RL - 24) ? 8191 : (RL > 200 && n > 4 && n < (long)RL - 24) ? 13 : 1) {
            vd_tick();
            unsigned char *buf = data_hi - n, *lo; int r; long i;
            if (buf < data_lo + PAGE) break;          /* larger than the guarded area */
            lo = buf - PAGE; memset(lo, 0xEE, (size_t)(data_hi - lo));
            if (!VD_TRY()) { al_in_call = 0; viol("*", "cJSON_PrintPreallocated(n = %ld, text length %zu): memory fault at %p (buffer %p..%p)", n, RL, (void*)vd_fault_addr, (void*)buf, (void*)data_hi); break; }
            al_in_call = 1; al_window(0);
            r = cJSON_PrintPreallocated(t, (char*)buf, (int)n, vb_truthy(fmt, (unsigned long)tv)); prealloc_calls++;
            al_in_call = 0; VD_END();
            for (i = 0; i < 256 && buf - 1 - i >= data_lo; i++) if (buf[-1 - i] != 0xEE) { viol("C09", "cJSON_PrintPreallocated(n = %ld) wrote %ld byte(s) before the buffer", n, i + 1); break; }
            if (r) {
                if (n < (long)RL + 1 || memchr(buf, 0, (size_t)n) == NULL || strcmp((char*)buf, ref_text)) viol("C09 C05", "cJSON_PrintPreallocated(n = %ld, format = %d) returned true but the buffer does not hold the complete terminated text", n, vb_truthy(fmt, (unsigned long)tv));
            } else {
                if (n >= (long)RL + 6) viol("C09", "cJSON_PrintPreallocated(n = %ld) failed although the text with terminator needs %zu bytes", n, RL + 1);
                if (prev_ok) viol("C09", "cJSON_PrintPreallocated succeeds with fewer bytes but fails with %ld", n);
            }
            if (tv == 0 && (r != 0) != (n >= thr)) VD.drift++;
            prev_ok = r;
        }
    }
    if (ref_text && !nullvar && L < 400) {
        cJSON *stack[256]; int sp = 0, changed = 0; cJSON *c;
        stack[sp++] = t;
        while (sp) { cJSON *x = stack[--sp];
            if ((x->type & 0xFF) == cJSON_String && x->valuestring && !x->valuestring[0] && !(x->type & cJSON_IsReference)) { al_free(x->valuestring); x->valuestring = NULL; x->type |= cJSON_IsReference; changed = 1; }
            if (x->string && !x->string[0] && !(x->type & cJSON_StringIsConst)) { al_free(x->string); x->string = NULL; changed = 1; }
            for (c = x->child; c && sp < 256; c = c->next) stack[sp++] = c; }
        if (changed) {
            char *s4 = fmt ? cJSON_Print(t) : cJSON_PrintUnformatted(t), *s5 = cJSON_PrintBuffered(t, 1, fmt);
            if (!s4 || strcmp(s4, ref_text) || !s5 || strcmp(s5, ref_text)) viol("C04 C05", "with empty strings / names held as NULL pointers the printed text differs: %.80s", s4 ? s4 : "(null)");
            cJSON_free(s4); cJSON_free(s5);
            nullvar = 1; goto again_nullvar;
        }
    }
    /* every member printed where it stands (siblings, key): the text of that member alone (C05, C04) */
    if (ref_text && line->n >= 6 && L < 5000) {
        const jv *subs = jv_at(line, 5); cJSON *c; size_t i = 0;
        for (c = t->child; c && subs && i < subs->n; c = c->next, i++) {
            static char sub[1 << 16]; const jv *sb = subs->e[i]; size_t SL = sb->n, q; char *s; int ep; static char pb[(1 << 16) + 64];
            if (SL + 1 > sizeof(sub)) continue;
            for (q = 0; q < SL; q++) sub[q] = (char)jv_int(sb->e[q]);
            sub[SL] = 0;
            if (!VD_TRY()) { al_in_call = 0; viol("*", "printing member %zu in place: memory fault", i); break; }
            al_in_call = 1;
            for (ep = 0; ep < 4; ep++) {
                al_window(0);
                if (ep == 0) s = fmt ? cJSON_Print(c) : cJSON_PrintUnformatted(c);
                else if (ep == 1) s = cJSON_PrintBuffered(c, 0 + (int)(SL / 2) + 1, vb_truthy(fmt, i));
                else if (ep == 2) s = cJSON_PrintBuffered(c, (int)SL + 8, fmt);
                else { memset(pb, 0x55, SL + 40); s = cJSON_PrintPreallocated(c, pb, (int)SL + 6, vb_truthy(fmt, i + 1)) ? pb : NULL; }
                print_calls++; inplace_calls++;
                if (!s) viol("C05 C04 C09", "printing member %zu where it stands (entry point %d) failed", i, ep);
                else if (strcmp(s, sub)) {
                    /* not the predicted bytes: what the properties demand is that the member prints as it would print alone (a detached copy of it) */
                    cJSON *alone = cJSON_Duplicate(c, 1); char *sa;
                    if (alone && alone->string) { cJSON_free(alone->string); alone->string = NULL; }
                    sa = alone ? (fmt ? cJSON_Print(alone) : cJSON_PrintUnformatted(alone)) : NULL; drift_texts++;
                    if (!sa || strcmp(s, sa)) viol("C05 C04", "member %zu printed where it stands (entry point %d: 0 Print/PrintUnformatted, 1-2 PrintBuffered, 3 PrintPreallocated) gives %.120s, not the text of that item alone (%.60s)", i, ep, s, sa ? sa : "NULL");
                    cJSON_free(sa); cJSON_Delete(alone);
                }
                if (ep == 3 && s && (pb[SL + 6] != 0x55)) viol("C09", "cJSON_PrintPreallocated on member %zu wrote beyond the n bytes it was given", i);
                if (ep < 3) cJSON_free(s);
            }
            al_in_call = 0; VD_END();
        }
    }
    (void)h0;
    free(ref_text);
    return 1;
}

/* ["E", table]: the escape function of the specification is a byte-wise map; every string of 1, 2 and 3 non-zero bytes is printed
 * (into a caller buffer, so that 16.6 million calls stay cheap) and must be the quoted concatenation of the table entries; a sample is
 * also printed through the allocating entry point and parsed back (C04: same bytes) */
static int utf8_ok(const unsigned char *s, int n)
{
    int i = 0;
    while (i < n) {
        unsigned c = s[i];
        if (c < 0x80) { i++; continue; }
        if (c >= 0xC2 && c <= 0xDF) { if (i + 1 >= n || (s[i + 1] & 0xC0) != 0x80) return 0; i += 2; continue; }
        if (c >= 0xE0 && c <= 0xEF) { if (i + 2 >= n || (s[i + 1] & 0xC0) != 0x80 || (s[i + 2] & 0xC0) != 0x80) return 0;
            if (c == 0xE0 && s[i + 1] < 0xA0) return 0; if (c == 0xED && s[i + 1] >= 0xA0) return 0; i += 3; continue; }
        return 0;      /* four-byte forms do not fit into three bytes */
    }
    return 1;
}
static int do_table(const jv *line, int full)
{
    static unsigned char E[256][8]; static size_t EL[256]; const jv *tab = jv_at(line, 1); size_t b; cJSON *item; char val[4]; char out[64], exp[64];
    unsigned b1, b2, b3; int len;
    if (!tab || tab->n != 255) return -1;
    for (b = 1; b <= 255; b++) { const jv *e = tab->e[b - 1]; size_t q; if (e->n > 7) return -1; EL[b] = e->n; for (q = 0; q < e->n; q++) E[b][q] = (unsigned char)jv_int(e->e[q]); }
    use_custom_hooks();
    item = cJSON_CreateStringReference(val);
    if (!VD_TRY()) { viol("*", "printing short strings: memory fault"); return 1; }
    for (len = 1; len <= 3; len++)
        for (b1 = 1; b1 <= 255; b1++) {
            vd_tick();
            for (b2 = (len >= 2 ? 1 : 0); b2 <= (len >= 2 ? 255u : 0u); b2++) {
                unsigned step3 = 1, start3 = (len >= 3 ? 1 : 0);
                if (len == 3 && !full && !(b1 >= 0xC0 || b1 < 0x30 || b1 == 0x5C || b1 == 0x7F)) { step3 = 7; start3 = 1 + (b1 + b2) % 7; }   /* quick: every third byte for lead bytes, controls, quote, backslash; a stride elsewhere */
                for (b3 = start3; b3 <= (len >= 3 ? 255u : 0u); b3 += step3) {
                    size_t o = 0; int r, fmt = (int)((b1 ^ b2 ^ b3) & 1);
                    val[0] = (char)b1; val[1] = (char)b2; val[2] = (char)b3; val[len] = 0;
                    exp[o++] = '"';
                    memcpy(exp + o, E[b1], EL[b1]); o += EL[b1];
                    if (len >= 2) { memcpy(exp + o, E[b2], EL[b2]); o += EL[b2]; }
                    if (len >= 3) { memcpy(exp + o, E[b3], EL[b3]); o += EL[b3]; }
                    exp[o++] = '"'; exp[o] = 0;
                    memset(out, 0x55, sizeof(out));
                    r = cJSON_PrintPreallocated(item, out, (int)o + 6, fmt); table_strings++;
                    if (r && !strcmp(out, exp) && (unsigned char)out[o + 6] != 0x55) viol("C09", "cJSON_PrintPreallocated wrote beyond the n bytes it was given (string bytes %02x %02x %02x)", b1, b2, b3);
                    if (!r || strcmp(out, exp)) {
                        /* not the bytes of the transcription: judged by what the properties demand (the text denotes the same string; a sample goes to the TLA+ grammar) */
                        char *s = cJSON_PrintUnformatted(item); cJSON *back = s ? cJSON_Parse(s) : NULL; const unsigned char *p; int q;
                        drift_texts++; VD.drift++;
                        if (!s) viol("C04 C05", "string with bytes %02x %02x %02x cannot be printed", b1, b2, b3);
                        else if (!back || !cJSON_IsString(back) || strcmp(back->valuestring, val)) viol("C04", "string with bytes %02x %02x %02x does not survive print and parse (printed as %.40s)", b1, b2, b3, s);
                        else if (driftf && drift_recorded < 400 && utf8_ok((const unsigned char*)val, len)) {      /* C05 speaks of valid UTF-8 strings */
                            drift_recorded++; fprintf(driftf, "{\"v\":[\"s\",["); for (q = 0; q < len; q++) fprintf(driftf, "%s%u", q ? "," : "", (unsigned char)val[q]);
                            fprintf(driftf, "]],\"fmt\":false,\"text\":["); for (p = (const unsigned char*)s; *p; p++) fprintf(driftf, "%s%u", p == (const unsigned char*)s ? "" : ",", *p); fprintf(driftf, "]}\n"); }
                        if (s && r && strcmp(s, out)) viol("C05", "cJSON_PrintPreallocated and cJSON_PrintUnformatted give different bytes for the string %02x %02x %02x", b1, b2, b3);
                        if (s && !r) viol("C09", "cJSON_PrintPreallocated fails with text length + 6 bytes for the string %02x %02x %02x", b1, b2, b3);
                        cJSON_free(s); cJSON_Delete(back);
                        if (VD.violations > 20) goto done;
                        continue;
                    }
                    if (len < 3 || ((b1 * 65536u + b2 * 256u + b3) % 61u) == 0 || b1 >= 0xE0) {
                        if (len == 3 && !full && b1 >= 0xE0 && ((b2 + b3) % 5u)) continue;
                        { char *s = cJSON_PrintUnformatted(item); cJSON *back = s ? cJSON_Parse(s) : NULL;
                          if (!s || strcmp(s, exp)) viol("C05", "cJSON_PrintUnformatted and cJSON_PrintPreallocated give different bytes for the string %02x %02x %02x: %.40s", b1, b2, b3, s ? s : "(null)");
                          else if (!back || !cJSON_IsString(back) || strcmp(back->valuestring, val)) viol("C04", "string with bytes %02x %02x %02x does not survive print and parse (text %s)", b1, b2, b3, s);
                          cJSON_free(s); cJSON_Delete(back); }
                    }
                }
            }
        }
    /* every three-byte sequence with a lead byte E0..EF next to one more byte (in front of it and behind it): escaping one byte must not
     * change how its neighbours are written (quick: the neighbours that need escaping, and one that does not) */
    { unsigned c2, c3, nb; int pos; char v5[8];
      item->valuestring = v5;
      for (b1 = 0xE0; b1 <= 0xEF; b1++) for (c2 = 0x80; c2 <= 0xBF; c2++) { vd_tick(); for (c3 = 0x80; c3 <= 0xBF; c3++) for (nb = 1; nb <= 255; nb++) {
          if (!full && !(nb < 32 || nb == 34 || nb == 92 || nb == 97 || nb == 0xE2)) continue;
          for (pos = 0; pos < 2; pos++) {
              size_t o = 0; int r; unsigned seq[4]; int q;
              if (pos == 0) { seq[0] = nb; seq[1] = b1; seq[2] = c2; seq[3] = c3; } else { seq[0] = b1; seq[1] = c2; seq[2] = c3; seq[3] = nb; }
              exp[o++] = '"';
              for (q = 0; q < 4; q++) { v5[q] = (char)seq[q]; memcpy(exp + o, E[seq[q]], EL[seq[q]]); o += EL[seq[q]]; }
              v5[4] = 0; exp[o++] = '"'; exp[o] = 0;
              memset(out, 0x55, sizeof(out));
              r = cJSON_PrintPreallocated(item, out, (int)o + 6, 0); table_strings++;
              if (!r || strcmp(out, exp)) {
                  char *s = cJSON_PrintUnformatted(item); cJSON *back = s ? cJSON_Parse(s) : NULL;
                  drift_texts++; VD.drift++;
                  if (!s) viol("C04 C05", "string with bytes %02x %02x %02x %02x cannot be printed", seq[0], seq[1], seq[2], seq[3]);
                  else if (!back || !cJSON_IsString(back) || strcmp(back->valuestring, v5)) viol("C04 C05", "string with bytes %02x %02x %02x %02x does not survive print and parse (printed as %.40s)", seq[0], seq[1], seq[2], seq[3], s);
                  if (s && r && strcmp(s, out)) viol("C05", "cJSON_PrintPreallocated and cJSON_PrintUnformatted give different bytes for the string %02x %02x %02x %02x", seq[0], seq[1], seq[2], seq[3]);
                  if (s && !r) viol("C09", "cJSON_PrintPreallocated fails with text length + 6 bytes for the string %02x %02x %02x %02x", seq[0], seq[1], seq[2], seq[3]);
                  cJSON_free(s); cJSON_Delete(back);
                  if (VD.violations > 20) { item->valuestring = val; goto done; }
              }
          } } }
      item->valuestring = val; }
done:
    VD_END();
    cJSON_Delete(item);
    return 1;
}

/* Scale cases (run once, behind the escape table): trees whose text runs to megabytes because of ONE long string / key / many members.
 * No byte prediction here: the properties are checked directly - every entry point returns text, all return the same bytes (C05), the text
 * parses back to the same strings (C04), printing into a caller buffer obeys C09 at the sizes around the text length, nothing leaks (C07),
 * under both allocator configurations.  fill: 0 = 'a', 1 = 0x01 (six output bytes each), 2 = mixed escapes, 3 = multi-byte UTF-8 */
static long scale_cases;
static char *fill_string(size_t n, int fill)
{
    static const char *MIX = "a\"b\\c\n\xc3\xa9\x01 \xe2\x82\xac/"; size_t i, m = strlen(MIX); char *s = (char*)malloc(n + 1);
    for (i = 0; i < n; i++) s[i] = fill == 0 ? 'a' : fill == 1 ? 1 : fill == 2 ? MIX[i % m] : "\xe2\x82\xac"[i % 3];
    if (fill == 3) while (n % 3) { s[--n] = 0; }
    s[n] = 0; return s;
}
static void scale_one(cJSON *t, const char *what)
{
    int cfg, fmt; char *ref = NULL;
    scale_cases++;
    for (cfg = 0; cfg < 2; cfg++) {
        long live0 = al_live;
        if (cfg == 0) use_custom_hooks(); else use_default_hooks();
        for (fmt = 0; fmt < 2; fmt++) {
            char *s, *b; cJSON *back; size_t L;
            vd_tick();
            if (!VD_TRY()) { al_in_call = 0; viol("*", "printing %s (allocator config %d): memory fault", what, cfg); use_custom_hooks(); return; }
            al_in_call = 1; al_window(0);
            s = fmt ? cJSON_Print(t) : cJSON_PrintUnformatted(t);
            if (!s) { viol("C04 C05", "%s: %s returned NULL (allocator config %d)", what, fmt ? "cJSON_Print" : "cJSON_PrintUnformatted", cfg); al_in_call = 0; VD_END(); continue; }
            L = strlen(s);
            b = cJSON_PrintBuffered(t, 256, vb_truthy(fmt, 1)); if (!b || strcmp(b, s)) viol("C05 C04", "%s: cJSON_PrintBuffered(256) %s", what, b ? "differs from cJSON_Print" : "returned NULL"); cJSON_free(b);
            b = cJSON_PrintBuffered(t, (int)(L / 2 + 10), fmt); if (!b || strcmp(b, s)) viol("C05 C04", "%s: cJSON_PrintBuffered(half the text length) %s", what, b ? "differs" : "returned NULL"); cJSON_free(b);
            b = cJSON_PrintBuffered(t, (int)L - 6, fmt); if (!b || strcmp(b, s)) viol("C05 C04", "%s: cJSON_PrintBuffered(text length - 6) %s", what, b ? "differs" : "returned NULL"); cJSON_free(b);
            { char *pb = (char*)malloc(L + 64); long n; static const long D[] = { -1, 0, 1, 5, 6 };
              for (n = 0; n < 5; n++) { int r; memset(pb + L - 8, 0x55, 72); r = cJSON_PrintPreallocated(t, pb, (int)((long)L + D[n]), fmt);
                  if (r && (D[n] < 1 || strcmp(pb, s))) viol("C09", "%s: cJSON_PrintPreallocated(text length %+ld) returned true without the complete text", what, D[n]);
                  if (!r && D[n] >= 6) viol("C09", "%s: cJSON_PrintPreallocated fails with text length + 6 bytes", what);
                  if ((unsigned char)pb[L + D[n]] != 0x55 && !(r && D[n] > 0 && 0)) { if ((long)L + D[n] < (long)L + 64 && (unsigned char)pb[L + D[n]] != 0x55) viol("C09", "%s: cJSON_PrintPreallocated(n = text length %+ld) wrote at index n", what, D[n]); } }
              free(pb); }
            if (fmt == 0) { if (!ref) ref = strdup(s); else if (strcmp(ref, s)) viol("C04", "%s: text depends on the allocator configuration", what); }
            al_window(0); back = cJSON_Parse(s);
            if (!back) viol("C04", "%s: the printed text does not parse back", what);
            else { char why[200] = ""; if (!roundtrip_equal(t, back, why, sizeof(why))) viol("C04", "%s: print then parse changes the value (%s)", what, why); }
            cJSON_Delete(back); cJSON_free(s);
            al_in_call = 0; VD_END();
        }
        if (al_live != live0) viol("C07", "%s: printing (allocator config %d) leaves %ld block(s) allocated", what, cfg, al_live - live0);
        if (al_bad_free) { viol("C07 C14", "%s: invalid release while printing", what); al_bad_free = 0; }
        if (!al_check_redzones()) { viol("*", "%s: printing (allocator config %d) wrote beyond the end of a block it allocated", what, cfg); al_overflow = 0; }
    }
    use_custom_hooks(); free(ref);
}
static void do_scale(int full)
{
    static const size_t LEN[] = { 70000, 600000, 1200016, 1700000 }; size_t li; int fill; char what[160];
    al_case_begin(); use_custom_hooks();
    for (li = 0; li < (full ? 4u : 3u); li++) for (fill = 0; fill < 4; fill++) {
        char *a = fill_string(LEN[li], fill), *b = fill_string(LEN[li] / 2 + 7, (fill + 1) & 3); cJSON *t;
        if (!full && fill == 1 && li == 2) { free(a); free(b); continue; }
        vd_tick();
        t = cJSON_CreateArray(); cJSON_AddItemToArray(t, cJSON_CreateStringReference(b)); cJSON_AddItemToArray(t, cJSON_CreateStringReference(a));
        snprintf(what, sizeof(what), "an array of two strings of %zu and %zu bytes (fill %d)", strlen(b), strlen(a), fill); scale_one(t, what); cJSON_Delete(t);
        t = cJSON_CreateObject(); cJSON_AddItemToObjectCS(t, b, cJSON_CreateNumber(1)); cJSON_AddItemToObjectCS(t, "k", cJSON_CreateStringReference(a));
        snprintf(what, sizeof(what), "an object with a key of %zu bytes and a string of %zu bytes (fill %d)", strlen(b), strlen(a), fill); scale_one(t, what); cJSON_Delete(t);
        free(a); free(b);
    }
    {   /* 1.3 MB of small members, then one member of 700 KB */
        char *small = fill_string(600, 2), *big = fill_string(716800, 0); cJSON *t = cJSON_CreateArray(); int i;
        for (i = 0; i < 2100; i++) cJSON_AddItemToArray(t, cJSON_CreateStringReference(small));
        cJSON_AddItemToArray(t, cJSON_CreateStringReference(big)); cJSON_AddItemToArray(t, cJSON_CreateNumber(2));
        vd_tick(); scale_one(t, "2100 strings of 600 bytes followed by one of 716800 bytes"); cJSON_Delete(t); free(small); free(big);
    }
    {   /* breadth: more siblings than CJSON_NESTING_LIMIT of every kind in a shallow tree (depth is the only bound of the round trip, C04) */
        static const int K[] = { 1000, 1001, 2600 }; size_t ki; int kind, asobj, wrap;
        for (ki = 0; ki < (full ? 3u : 2u); ki++) for (kind = 0; kind < 7; kind++) for (asobj = 0; asobj < 2; asobj++) for (wrap = 0; wrap < 2; wrap++) {
            cJSON *top = asobj ? cJSON_CreateObject() : cJSON_CreateArray(), *t = top; int i; char key[24];
            if (!full && ((kind + asobj + wrap) & 1) && ki == 1) { cJSON_Delete(top); continue; }
            for (i = 0; i < K[ki]; i++) {
                cJSON *c = kind == 0 ? cJSON_CreateArray() : kind == 1 ? cJSON_CreateObject() : kind == 2 ? cJSON_CreateIntArray(&i, 1) : kind == 3 ? cJSON_CreateObject() : kind == 4 ? cJSON_CreateString("s") : kind == 5 ? cJSON_CreateNumber(i) : cJSON_CreateNull();
                if (kind == 3) cJSON_AddNumberToObject(c, "a", 1);
                if (asobj) { snprintf(key, sizeof(key), "k%d", i); cJSON_AddItemToObject(top, key, c); } else cJSON_AddItemToArray(top, c);
            }
            if (wrap) { t = cJSON_CreateArray(); cJSON_AddItemToArray(t, top); }
            snprintf(what, sizeof(what), "%s with %d %s side by side%s", asobj ? "an object" : "an array", K[ki], kind == 0 ? "empty arrays" : kind == 1 ? "empty objects" : kind == 2 ? "one-element arrays" : kind == 3 ? "one-member objects" : kind == 4 ? "strings" : kind == 5 ? "numbers" : "nulls", wrap ? " inside an array" : "");
            vd_tick(); scale_one(t, what); cJSON_Delete(t);
        }
    }
    {   /* one value whose text alone exceeds INT_MAX bytes: refused; the caller's buffer stays the caller's */
        size_t n = 360000000; char *huge = (char*)mmap(NULL, n + 1, PROT_READ | PROT_WRITE, MAP_PRIVATE | MAP_ANONYMOUS, -1, 0);
        if (huge != MAP_FAILED) {
            cJSON *t; char *buf; int r; char *s; long live0;
            memset(huge, 1, n); huge[n] = 0;
            t = cJSON_CreateStringReference(huge); buf = (char*)al_malloc(4096); live0 = al_live;
            vd_tick();
            if (VD_TRY()) {
                al_in_call = 1; al_window(0);
                r = cJSON_PrintPreallocated(t, buf, 4096, 0);
                vd_tick();
                if (r) viol("C09", "cJSON_PrintPreallocated returned true for a text of more than INT_MAX bytes");
                if (!al_is_live(buf) || al_bad_free) { viol("C07 C09 C14", "cJSON_PrintPreallocated released the caller's buffer (a value whose text exceeds INT_MAX bytes)"); al_bad_free = 0; }
                s = cJSON_PrintUnformatted(t); if (s) { cJSON_free(s); }      /* may succeed or be refused; must not leak or crash */
                vd_tick();
                if (al_live != live0) viol("C07", "printing a value whose text exceeds INT_MAX bytes leaves %ld block(s) allocated", al_live - live0);
                al_in_call = 0; VD_END();
            } else { al_in_call = 0; viol("*", "printing a value whose text exceeds INT_MAX bytes: memory fault"); }
            if (al_is_live(buf)) al_free(buf);
            cJSON_Delete(t); munmap(huge, n + 1); scale_cases++;
        }
    }
}

int vd_print_main(int argc, char **argv);
int vd_print_main(int argc, char **argv)
{
    char *line = NULL; size_t cap = 0; ssize_t len; const char *stats = NULL; int k; char extra[300];
    for (k = 0; k < argc; k++) {
        if (!strcmp(argv[k], "--stats") && k + 1 < argc) stats = argv[k + 1];
        if (!strcmp(argv[k], "--drift") && k + 1 < argc) driftf = fopen(argv[k + 1], "w");
        if (!strcmp(argv[k], "--failinject")) do_failinject = 1;
        if (!strcmp(argv[k], "--fulltable")) full_table = 1;
    }
    use_custom_hooks(); region_init(); vd_install_handlers();
    if (do_failinject) { VD.curline = (char*)"# driver-built case: long trees printed under refused allocation requests"; failinject_long(); VD.curline = NULL; }
    while ((len = getline(&line, &cap, stdin)) > 0 || (len < 0 && errno == EINTR && !feof(stdin) && (clearerr(stdin), 1))) {
        char *copy; jv *v; int rc;
        if (len <= 0) continue;
        if (line[0] != '"') { if (VD.passthrough) fputs(line, VD.passthrough); continue; }
        copy = strdup(line); jv_reset(); v = jv_parse_line(line);
        if (v && v->t == JV_ARR && v->n == 2 && jv_is_str(jv_at(v, 0), "E")) { VD.curline = copy; VD.cases++; if (do_table(v, full_table) < 0) { fprintf(stderr, "vdrv: cannot interpret escape table\n"); return 2; } do_scale(full_table); VD.nontrivial++; VD.curline = NULL; free(copy); continue; }
        if (!v || v->t != JV_ARR || v->n < 5 || !jv_is_str(jv_at(v, 0), "R")) { if (VD.passthrough) fputs(copy, VD.passthrough); free(copy); continue; }
        VD.curline = copy; VD.cases++;
        rc = do_case(v);
        if (rc < 0) { fprintf(stderr, "vdrv: cannot interpret line %s\n", copy); return 2; }
        VD.nontrivial++;
        if (VD.samplef && VD.samples < 6 && (VD.cases % 131 == 5)) { fputs(copy, VD.samplef); VD.samples++; }
        vd_tick(); VD.curline = NULL; free(copy);
    }
    if (driftf) fclose(driftf);
    snprintf(extra, sizeof(extra), "\"print_calls\": %ld, \"members_printed_in_place_calls\": %ld, \"short_strings_against_escape_table\": %ld, \"scale_cases\": %ld, \"preallocated_calls\": %ld, \"texts_differing_from_prediction\": %ld, \"texts_sent_to_tla_grammar\": %ld, \"failinject_runs\": %ld, \"other_property_violations\": %ld",
             print_calls, inplace_calls, table_strings, scale_cases, prealloc_calls, drift_texts, drift_recorded, failinj_runs, VD.by_kind[0]);
    if (stats) vd_write_stats(stats, extra);
    return VD.violations ? 1 : 0;
}
