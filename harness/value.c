#include "value.h"
#include <math.h>

double num_of_id(long id)
{
    double d; uint64_t b;
    if (id < 1 || id > NUMCAT_COUNT) return 0.0;
    b = NUMCAT_BITS[id]; memcpy(&d, &b, sizeof(d));
    return d;
}
static char *own_str(const char *s) { size_t n = strlen(s) + 1; char *p = (char*)al_raw(n); memcpy(p, s, n); return p; }

static int vb_flagged, vb_shared;
cJSON *vb_build_flagged(const jv *v) { cJSON *t; vb_flagged = 1; t = vb_build(v); vb_flagged = 0; return t; }
#define VB_POOL 512
static struct { cJSON *owner; const jv *v; } vb_pool[VB_POOL]; static int vb_pool_n;
cJSON *vb_build_shared(const jv *v) { cJSON *t; vb_flagged = 1; vb_shared = 1; t = vb_build(v); vb_flagged = 0; vb_shared = 0; return t; }
int vb_pool_count(void) { return vb_pool_n; }
cJSON *vb_pool_owner(int i) { return vb_pool[i].owner; }
const jv *vb_pool_value(int i) { return vb_pool[i].v; }
void vb_pool_release(void) { int i; for (i = vb_pool_n - 1; i >= 0; i--) cJSON_Delete(vb_pool[i].owner); vb_pool_n = 0; }
static int min_first(const cJSON *o)
{
    const cJSON *c;
    if (!o->child || !o->child->string) return 0;
    for (c = o->child->next; c; c = c->next) if (!c->string || strcmp((const char*)o->child->string, (const char*)c->string) >= 0) return 0;
    return 1;
}
/* c: a freshly built container (its key, if any, already set); returns the reference node that takes its place */
static cJSON *share(cJSON *c, const jv *v)
{
    cJSON *r;
    if (!vb_shared || vb_pool_n >= VB_POOL || !c->child) return c;
    if ((c->type & 0xFF) == cJSON_Object ? !min_first(c) : (c->type & 0xFF) != cJSON_Array) return c;
    r = (cJSON*)al_raw(sizeof(cJSON)); *r = *c; r->type |= cJSON_IsReference; r->next = r->prev = NULL;
    c->string = NULL; c->type &= ~cJSON_StringIsConst;
    vb_pool[vb_pool_n].owner = c; vb_pool[vb_pool_n].v = v; vb_pool_n++;
    return r;
}
cJSON *vb_build(const jv *v)
{
    cJSON *n; const char *t; size_t k; cJSON *prev = NULL;
    if (!v || v->t != JV_ARR || v->n < 1) return NULL;
    t = jv_at(v, 0)->s;
    n = (cJSON*)al_raw(sizeof(cJSON)); memset(n, 0, sizeof(*n));
    switch (t[0]) {
        case 'n': n->type = cJSON_NULL; break;
        case 't': n->type = cJSON_True; n->valueint = 1; break;
        case 'f': n->type = cJSON_False; break;
        case '#': n->type = cJSON_Number; n->valuedouble = num_of_id(jv_int(jv_at(v, 1))); n->valueint = NUMCAT_INT[jv_int(jv_at(v, 1))]; break;
        case 's': n->type = cJSON_String;
                  if (vb_flagged) { n->type |= cJSON_IsReference; n->valuestring = cm_string(jv_bytes(jv_at(v, 1), NULL)); } else n->valuestring = own_str(jv_bytes(jv_at(v, 1), NULL));
                  break;
        case 'r': n->type = cJSON_Raw; n->valuestring = own_str(jv_bytes(jv_at(v, 1), NULL)); break;
        case 'a': case 'o': {
            const jv *ms = jv_at(v, 1);
            n->type = (t[0] == 'a') ? cJSON_Array : cJSON_Object;
            for (k = 0; ms && k < ms->n; k++) {
                cJSON *c;
                if (t[0] == 'a') c = vb_build(ms->e[k]);
                else { c = vb_build(jv_at(ms->e[k], 1)); if (c) { if (vb_flagged) { c->string = cm_string(jv_bytes(jv_at(ms->e[k], 0), NULL)); c->type |= cJSON_StringIsConst; } else c->string = own_str(jv_bytes(jv_at(ms->e[k], 0), NULL)); } }
                if (!c) continue;
                c = share(c, t[0] == 'a' ? ms->e[k] : jv_at(ms->e[k], 1));
                if (!prev) n->child = c; else { prev->next = c; c->prev = prev; }
                prev = c;
            }
            if (n->child) n->child->prev = prev;
            break;
        }
        default: break;
    }
    return n;
}

int vb_wellformed(const cJSON *t, char *why, size_t wn, int depth)
{
    const cJSON *c, *last = NULL; int kc;
    if (!t) { snprintf(why, wn, "NULL node"); return 0; }
    if (depth > 200000) { snprintf(why, wn, "tree too deep or cyclic"); return 0; }
    kc = t->type & 0xFF;
    if (kc != cJSON_Array && kc != cJSON_Object) { if (t->child && !(t->type & cJSON_IsReference)) { snprintf(why, wn, "scalar node with children"); return 0; } return 1; }
    for (c = t->child; c; c = c->next) {
        if (c != t->child && c->prev != last) { snprintf(why, wn, "prev link does not mirror next link"); return 0; }
        if (!vb_wellformed(c, why, wn, depth + 1)) return 0;
        last = c;
    }
    if (t->child && t->child->prev != last) { snprintf(why, wn, "first child's prev does not designate the last child"); return 0; }
    return 1;
}

int vb_equal(const jv *v, const cJSON *t, char *why, size_t wn, int depth)
{
    const char *k; int kc;
    if (!t) { snprintf(why, wn, "tree is NULL"); return 0; }
    if (!v || v->t != JV_ARR || v->n < 1) { snprintf(why, wn, "bad expected value"); return 0; }
    k = jv_at(v, 0)->s; kc = t->type & 0xFF;
    switch (k[0]) {
        case 'n': if (kc != cJSON_NULL) goto type; return 1;
        case 't': if (kc != cJSON_True) goto type; return 1;
        case 'f': if (kc != cJSON_False) goto type; return 1;
        case '#': {
            double e = num_of_id(jv_int(jv_at(v, 1)));
            if (kc != cJSON_Number) goto type;
            if (memcmp(&e, &t->valuedouble, sizeof(e)) != 0 && !(isnan(e) && isnan(t->valuedouble))) { snprintf(why, wn, "number is %.17g, expected %.17g", t->valuedouble, e); return 0; }
            if (!isnan(e) && t->valueint != NUMCAT_INT[jv_int(jv_at(v, 1))]) { snprintf(why, wn, "integer view is %d, expected %d", t->valueint, NUMCAT_INT[jv_int(jv_at(v, 1))]); return 0; }
            return 1;
        }
        case 's': case 'r': {
            const jv *b = jv_at(v, 1); size_t i;
            if (kc != (k[0] == 's' ? cJSON_String : cJSON_Raw)) goto type;
            if (!t->valuestring) { snprintf(why, wn, "valuestring is NULL"); return 0; }
            if (strlen(t->valuestring) != b->n) { snprintf(why, wn, "string has %zu bytes, expected %zu", strlen(t->valuestring), b->n); return 0; }
            for (i = 0; i < b->n; i++) if ((unsigned char)t->valuestring[i] != (unsigned char)jv_int(b->e[i])) { snprintf(why, wn, "string byte %zu is 0x%02x, expected 0x%02lx", i, (unsigned char)t->valuestring[i], jv_int(b->e[i]) & 0xff); return 0; }
            return 1;
        }
        case 'a': case 'o': {
            const jv *ms = jv_at(v, 1); const cJSON *c = t->child; size_t i;
            if (kc != (k[0] == 'a' ? cJSON_Array : cJSON_Object)) goto type;
            for (i = 0; i < (ms ? ms->n : 0); i++, c = c->next) {
                if (!c) { snprintf(why, wn, "container has %zu members, expected %zu", i, ms->n); return 0; }
                if (k[0] == 'o') {
                    const jv *kb = jv_at(ms->e[i], 0); size_t j;
                    if (!c->string) { snprintf(why, wn, "member %zu has no key", i); return 0; }
                    if (strlen(c->string) != kb->n) { snprintf(why, wn, "key of member %zu has %zu bytes, expected %zu", i, strlen(c->string), kb->n); return 0; }
                    for (j = 0; j < kb->n; j++) if ((unsigned char)c->string[j] != (unsigned char)jv_int(kb->e[j])) { snprintf(why, wn, "key of member %zu differs at byte %zu", i, j); return 0; }
                    if (!vb_equal(jv_at(ms->e[i], 1), c, why, wn, depth + 1)) return 0;
                } else if (!vb_equal(ms->e[i], c, why, wn, depth + 1)) return 0;
            }
            if (c) { snprintf(why, wn, "container has more than the expected %zu members", ms ? ms->n : 0); return 0; }
            return 1;
        }
        default: break;
    }
    snprintf(why, wn, "bad expected kind"); return 0;
type:
    snprintf(why, wn, "node type is %d, expected kind '%s'", kc, k); return 0;
}

uint64_t vb_hash(const cJSON *t, int depth)
{
    uint64_t h = 1469598103934665603ULL; const cJSON *c; const char *p; uint64_t db;
#define MIX(x) do { h ^= (uint64_t)(x); h *= 1099511628211ULL; } while (0)
    if (!t || depth > 100000) return 7;
    MIX(t->type); MIX(t->valueint); memcpy(&db, &t->valuedouble, 8); MIX(db);
    MIX((uintptr_t)t->next); MIX((uintptr_t)t->prev); MIX((uintptr_t)t->child); MIX((uintptr_t)t->string); MIX((uintptr_t)t->valuestring);
    if (t->string) for (p = t->string; *p; p++) MIX((unsigned char)*p);
    if (t->valuestring) for (p = t->valuestring; *p; p++) MIX((unsigned char)*p);
    if (!(t->type & cJSON_IsReference)) for (c = t->child; c; c = c->next) MIX(vb_hash(c, depth + 1));
    return h;
}

int vb_truthy(int b, unsigned long salt)
{
    static const int T[] = { 1, 2, -1, 256, 1, (-2147483647 - 1), 4, 1 };
    return b ? T[salt % (sizeof(T) / sizeof(T[0]))] : 0;
}

void vb_stale_keys(cJSON *t, int scheme)
{
    cJSON *c; int i = 0, n = 0, isarr;
    if (!t || (t->type & cJSON_IsReference)) return;
    isarr = (t->type & 0xFF) == cJSON_Array;
    for (c = t->child; c; c = c->next) n++;
    for (c = t->child; c; c = c->next, i++) {
        if (isarr && !c->string) {
            char name[32];
            switch (scheme & 3) {
                case 0: snprintf(name, sizeof(name), "k%d", i); break;
                case 1: snprintf(name, sizeof(name), "k%d", n - 1 - i); break;
                case 2: snprintf(name, sizeof(name), "%d", (i + 1) % (n > 1 ? n : 2)); break;
                default: snprintf(name, sizeof(name), "%s", (i & 1) ? "value" : "a"); break;
            }
            c->string = own_str(name);
        }
        vb_stale_keys(c, scheme);
    }
}
void vb_stale_clear(cJSON *t)
{
    cJSON *c;
    if (!t || (t->type & cJSON_IsReference)) return;
    for (c = t->child; c; c = c->next) {
        if ((t->type & 0xFF) == cJSON_Array && c->string && !(c->type & cJSON_StringIsConst)) { al_free(c->string); c->string = NULL; }
        vb_stale_clear(c);
    }
}

void vb_payload(cJSON *t, int scheme)
{
    cJSON *c; int k;
    if (!t) return;
    k = t->type & 0xFF;
    if (k != cJSON_Number) {
        t->valueint = scheme ? ((k == cJSON_True) ? 0 : (k == cJSON_False) ? 1 : 77) : ((k == cJSON_True) ? 1 : (k == cJSON_False) ? 0 : -3);
        t->valuedouble = scheme ? 2.5 : 0.0;
    }
    if (!(t->type & cJSON_IsReference)) for (c = t->child; c; c = c->next) vb_payload(c, scheme);
}
