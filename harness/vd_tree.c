/* Tree mode: replays the S (state + query answers) and T (transition + admissible outcomes) lines that TLC
 * emits from MC_Tree.tla against the real library.  Each pre-state is concretised directly as a heap of
 * cJSON nodes (the projection is a complete abstraction, DESIGN 4.2), the call is made, and the resulting
 * heap is compared field by field, link by link, block by block with the outcomes the specification admits. */
#include "base.h"
#include "value.h"
#include "cJSON.h"
#include "cJSON_Utils.h"
#include <math.h>
#include <stdarg.h>

#define MAXN 16
/* what kind of disagreement the last failed comparison found: 1 shape / fields / results (list model), 2 ownership (allocator census) */
static int why_kind;
#define STRUCT_FAIL (why_kind = 1, 0)
#define OWNER_FAIL (why_kind = 2, 0)

static cJSON *np[MAXN + 1];      /* id -> node of the concretised pre-state */
static cJSON *bp[MAXN + 1];      /* id -> node binding while comparing a post-state */
static cJSON raw_snap[MAXN + 1]; /* the raw structs before the call */
static size_t NN;                /* number of node slots in the model */

/* node tuple layout: [k, ref, ck, nx, pv, ch, key, vs, num, of, sib, isroot] */
enum { F_K, F_REF, F_CK, F_NX, F_PV, F_CH, F_KEY, F_VS, F_NUM, F_OF, F_SIB, F_ROOT };

static int kind_code(const char *k)
{
    if (!strcmp(k, "null")) return cJSON_NULL;
    if (!strcmp(k, "false")) return cJSON_False;
    if (!strcmp(k, "true")) return cJSON_True;
    if (!strcmp(k, "num")) return cJSON_Number;
    if (!strcmp(k, "str")) return cJSON_String;
    if (!strcmp(k, "raw")) return cJSON_Raw;
    if (!strcmp(k, "arr")) return cJSON_Array;
    if (!strcmp(k, "obj")) return cJSON_Object;
    if (!strcmp(k, "invalid")) return cJSON_Invalid;
    return -1;
}
static int is_live_rec(const jv *rec) { return rec && rec->t == JV_ARR && rec->n > 0; }
static long fld(const jv *rec, int f) { return jv_int(jv_at(rec, (size_t)f)); }

static char *lib_strdup(const char *s) { size_t n = strlen(s) + 1; char *p = (char*)al_raw(n); memcpy(p, s, n); return p; }

/* build the concrete heap for abstract state st (array over Node) */
static int concretise(const jv *st, char *why, size_t wn)
{
    size_t i; int round;
    NN = st->n;
    if (NN > MAXN) { snprintf(why, wn, "too many node slots"); return 0; }
    memset(np, 0, sizeof(np));
    for (i = 1; i <= NN; i++) if (is_live_rec(st->e[i-1])) { np[i] = (cJSON*)al_raw(sizeof(cJSON)); memset(np[i], 0, sizeof(cJSON)); }
    for (i = 1; i <= NN; i++) {
        const jv *r = st->e[i-1]; cJSON *n = np[i]; int kc, isnull; char *s;
        if (!n) continue;
        kc = kind_code(jv_at(r, F_K)->s);
        n->type = kc | (fld(r, F_REF) ? cJSON_IsReference : 0) | (fld(r, F_CK) ? cJSON_StringIsConst : 0);
        n->next = np[fld(r, F_NX)]; n->prev = np[fld(r, F_PV)]; n->child = np[fld(r, F_CH)];
        n->valuedouble = (double)fld(r, F_NUM); n->valueint = (int)fld(r, F_NUM);
        s = jv_bytes(jv_at(r, F_KEY), &isnull);
        if (!isnull) n->string = fld(r, F_CK) ? cm_string(s) : lib_strdup(s);
        s = jv_bytes(jv_at(r, F_VS), &isnull);
        if (!isnull) {
            if (!fld(r, F_REF)) n->valuestring = lib_strdup(s);
            else if (fld(r, F_OF) == 0 || fld(r, F_SIB)) n->valuestring = cm_string(s);   /* borrowed from the caller */
            /* else: alias of the referenced item's text, resolved below */
        }
    }
    for (round = 0; round < (int)NN; round++) for (i = 1; i <= NN; i++) {
        const jv *r = st->e[i-1]; cJSON *n = np[i]; int isnull;
        if (!n || n->valuestring) continue;
        jv_bytes(jv_at(r, F_VS), &isnull);
        if (!isnull && fld(r, F_REF) && fld(r, F_OF) != 0 && !fld(r, F_SIB)) n->valuestring = np[fld(r, F_OF)] ? np[fld(r, F_OF)]->valuestring : NULL;
    }
    return 1;
}

static int str_readable(const char *p) { return p && (al_is_live(p) || cm_owns(p)); }


/* compare the concrete heap with abstract state post under the binding bp[]; result res already bound */
static int compare_state(const jv *post, char *why, size_t wn)
{
    size_t i; int changed = 1, round; blk *b;
    for (round = 0; changed && round <= (int)NN + 1; round++) {
        changed = 0;
        for (i = 1; i <= NN; i++) {
            const jv *r = post->e[i-1]; cJSON *n = bp[i]; int f;
            static const int linkf[3] = { F_NX, F_PV, F_CH };
            if (!is_live_rec(r) || !n) continue;
            if (!al_is_live(n)) { snprintf(why, wn, "node %zu should be live but its block is released", i); return OWNER_FAIL; }
            for (f = 0; f < 3; f++) {
                long e = fld(r, linkf[f]);
                cJSON *q = (linkf[f] == F_NX) ? n->next : (linkf[f] == F_PV) ? n->prev : n->child;
                static const char *nm[3] = { "next", "prev", "child" };
                if (e == 0) { if (q != NULL) { snprintf(why, wn, "node %zu: %s should be NULL", i, nm[f]); return STRUCT_FAIL; } continue; }
                if (q == NULL) { snprintf(why, wn, "node %zu: %s is NULL, expected node %ld", i, nm[f], e); return STRUCT_FAIL; }
                if (bp[e] == NULL) {
                    size_t j;
                    for (j = 1; j <= NN; j++) if (bp[j] == q) { snprintf(why, wn, "node %zu: %s designates node %zu, expected (new) node %ld", i, nm[f], j, e); return STRUCT_FAIL; }
                    bp[e] = q; changed = 1;
                } else if (bp[e] != q) {
                    size_t j, who = 0;
                    for (j = 1; j <= NN; j++) if (bp[j] == q) who = j;
                    snprintf(why, wn, "node %zu: %s designates node %zu, expected node %ld", i, nm[f], who, e); return STRUCT_FAIL;
                }
            }
        }
    }
    for (b = al_all; b; b = b->nextall) b->tag = 0;
    for (i = 1; i <= NN; i++) {
        const jv *r = post->e[i-1]; cJSON *n = bp[i]; int isnull, exptype; char *s; blk *nb;
        if (!is_live_rec(r)) continue;
        if (!n) { snprintf(why, wn, "expected node %zu is not reachable in the implementation's heap", i); return STRUCT_FAIL; }
        nb = al_find(n);
        if (!nb || nb->state != 1) { snprintf(why, wn, "node %zu: block released", i); return OWNER_FAIL; }
        nb->tag++;
        exptype = kind_code(jv_at(r, F_K)->s) | (fld(r, F_REF) ? cJSON_IsReference : 0) | (fld(r, F_CK) ? cJSON_StringIsConst : 0);
        if (n->type != exptype) { snprintf(why, wn, "node %zu: type is 0x%x, expected 0x%x", i, (unsigned)n->type, (unsigned)exptype); return STRUCT_FAIL; }
        s = jv_bytes(jv_at(r, F_KEY), &isnull);
        if (isnull) { if (n->string) { snprintf(why, wn, "node %zu: key should be NULL", i); return STRUCT_FAIL; } }
        else {
            if (!n->string) { snprintf(why, wn, "node %zu: key is NULL", i); return STRUCT_FAIL; }
            if (!str_readable(n->string)) { snprintf(why, wn, "node %zu: key points to released or foreign memory", i); return OWNER_FAIL; }
            if (strcmp(n->string, s) != 0) { snprintf(why, wn, "node %zu: key is \"%s\", expected \"%s\"", i, n->string, s); return STRUCT_FAIL; }
            if (fld(r, F_CK)) { if (!cm_owns(n->string)) { snprintf(why, wn, "node %zu: constant key was copied", i); return OWNER_FAIL; } }
            else { blk *kb = al_find(n->string); if (!kb || kb->state != 1) { snprintf(why, wn, "node %zu: owned key is not a live block", i); return OWNER_FAIL; } kb->tag++; }
        }
        s = jv_bytes(jv_at(r, F_VS), &isnull);
        if (isnull) { if (n->valuestring) { snprintf(why, wn, "node %zu: valuestring should be NULL", i); return STRUCT_FAIL; } }
        else {
            if (!n->valuestring) { snprintf(why, wn, "node %zu: valuestring is NULL", i); return STRUCT_FAIL; }
            if (!str_readable(n->valuestring)) { snprintf(why, wn, "node %zu: valuestring points to released or foreign memory", i); return OWNER_FAIL; }
            if (strcmp(n->valuestring, s) != 0) { snprintf(why, wn, "node %zu: valuestring is \"%s\", expected \"%s\"", i, n->valuestring, s); return STRUCT_FAIL; }
            if (!fld(r, F_REF)) { blk *vb = al_find(n->valuestring); if (!vb || vb->state != 1) { snprintf(why, wn, "node %zu: owned valuestring is not a live block", i); return OWNER_FAIL; } vb->tag++; }
            else if (fld(r, F_OF) != 0 && !fld(r, F_SIB)) {
                if (bp[fld(r, F_OF)] && n->valuestring != bp[fld(r, F_OF)]->valuestring) { snprintf(why, wn, "node %zu: reference does not share the referenced item's text", i); return OWNER_FAIL; }
            }
        }
        if (kind_code(jv_at(r, F_K)->s) == cJSON_Number) {
            if (n->valuedouble != (double)fld(r, F_NUM) || n->valueint != (int)fld(r, F_NUM)) { snprintf(why, wn, "node %zu: number is %g/%d, expected %ld", i, n->valuedouble, n->valueint, fld(r, F_NUM)); return STRUCT_FAIL; }
        }
    }
    for (b = al_all; b; b = b->nextall) if (b->state == 1 && b->tag != 1) {
        snprintf(why, wn, b->tag == 0 ? "a block of %zu bytes (request #%lu) is still allocated but belongs to no node (leak)"
                                      : "a block of %zu bytes (request #%lu) is owned more than once", b->size, (unsigned long)b->seq);
        return 0;
    }
    if (al_bad_free) { snprintf(why, wn, "%ld release(s) of a pointer that is not a live block (double or foreign free)", al_bad_free); return OWNER_FAIL; }
    if (!cm_intact(why, wn)) return OWNER_FAIL;
    return 1;
}

/* ------------------------------------------------------------------ calls */
typedef struct { int t; cJSON *ptr; int b; double d; const char *s; int ty; } cres;   /* t: 0 null-ptr,1 ptr,2 bool,3 void,4 num,5 str,6 type */

static cJSON *N_(const jv *a) { long id = jv_int(a); return (id > 0 && id <= MAXN) ? np[id] : NULL; }
static char *K_(const jv *a) { int isnull; char *s = jv_bytes(a, &isnull); return isnull ? NULL : cm_string(s); }

static int run_call(const jv *act, cres *r, char *why, size_t wn)
{
    const char *a = jv_at(act, 0)->s;
    size_t n = act->n; long f = 0;
    memset(r, 0, sizeof(*r));
#define A(k) jv_at(act, (k))
#define WIN(fi) do { f = jv_int(A(fi)); al_window(f); } while (0)
#define RPTR(x) do { r->ptr = (x); r->t = r->ptr ? 1 : 0; } while (0)
#define RBOOL(x) do { r->b = (x) ? 1 : 0; r->t = 2; } while (0)
    (void)n;
    if (!strcmp(a, "Create")) {
        int kc = kind_code(A(1)->s); WIN(2);
        switch (kc) { case cJSON_NULL: RPTR(cJSON_CreateNull()); break; case cJSON_True: if (vd_salt() & 1) RPTR(cJSON_CreateTrue()); else RPTR(cJSON_CreateBool(vb_truthy(1, vd_salt() >> 1))); break;
            case cJSON_False: if (vd_salt() & 1) RPTR(cJSON_CreateFalse()); else RPTR(cJSON_CreateBool(0)); break; case cJSON_Array: RPTR(cJSON_CreateArray()); break;
            case cJSON_Object: RPTR(cJSON_CreateObject()); break; default: snprintf(why, wn, "bad kind"); return STRUCT_FAIL; }
    } else if (!strcmp(a, "CreateNumber")) { WIN(2); RPTR(cJSON_CreateNumber((double)jv_int(A(1))));
    } else if (!strcmp(a, "CreateStr")) { char *s = K_(A(2)); WIN(3); RPTR(kind_code(A(1)->s) == cJSON_Raw ? cJSON_CreateRaw(s) : cJSON_CreateString(s));
    } else if (!strcmp(a, "CreateStringReference")) { char *s = K_(A(1)); WIN(2); RPTR(cJSON_CreateStringReference(s));
    } else if (!strcmp(a, "CreateContReference")) { cJSON *c = N_(A(2)); WIN(3); RPTR(kind_code(A(1)->s) == cJSON_Array ? cJSON_CreateArrayReference(c) : cJSON_CreateObjectReference(c));
    } else if (!strcmp(a, "AddItemToArray")) { al_window(0); RBOOL(cJSON_AddItemToArray(N_(A(1)), N_(A(2))));
    } else if (!strcmp(a, "AddItemToObject")) { char *k = K_(A(2)); WIN(4); RBOOL(cJSON_AddItemToObject(N_(A(1)), k, N_(A(3))));
    } else if (!strcmp(a, "AddItemToObjectCS")) { char *k = K_(A(2)); WIN(4); RBOOL(cJSON_AddItemToObjectCS(N_(A(1)), k, N_(A(3))));
    } else if (!strcmp(a, "AddItemReferenceToArray")) { WIN(3); RBOOL(cJSON_AddItemReferenceToArray(N_(A(1)), N_(A(2))));
    } else if (!strcmp(a, "AddItemReferenceToObject")) { char *k = K_(A(2)); WIN(4); RBOOL(cJSON_AddItemReferenceToObject(N_(A(1)), k, N_(A(3))));
    } else if (!strcmp(a, "AddNewToObject")) {
        cJSON *p = N_(A(1)); char *k = K_(A(2)); int kc = kind_code(A(3)->s); char *s = K_(A(4)); double d = (double)jv_int(A(5)); WIN(6);
        switch (kc) { case cJSON_NULL: RPTR(cJSON_AddNullToObject(p, k)); break; case cJSON_True: if (vd_salt() & 1) RPTR(cJSON_AddTrueToObject(p, k)); else RPTR(cJSON_AddBoolToObject(p, k, vb_truthy(1, vd_salt() >> 1))); break;
            case cJSON_False: if (vd_salt() & 1) RPTR(cJSON_AddFalseToObject(p, k)); else RPTR(cJSON_AddBoolToObject(p, k, 0)); break; case cJSON_Number: RPTR(cJSON_AddNumberToObject(p, k, d)); break;
            case cJSON_String: RPTR(cJSON_AddStringToObject(p, k, s)); break; case cJSON_Raw: RPTR(cJSON_AddRawToObject(p, k, s)); break;
            case cJSON_Array: RPTR(cJSON_AddArrayToObject(p, k)); break; case cJSON_Object: RPTR(cJSON_AddObjectToObject(p, k)); break;
            default: snprintf(why, wn, "bad kind"); return STRUCT_FAIL; }
    } else if (!strcmp(a, "DetachItemViaPointer")) { al_window(0); RPTR(cJSON_DetachItemViaPointer(N_(A(1)), N_(A(2))));
    } else if (!strcmp(a, "DetachItemFromArray")) { al_window(0); RPTR(cJSON_DetachItemFromArray(N_(A(1)), (int)jv_int(A(2))));
    } else if (!strcmp(a, "DetachItemFromObject")) { char *k = K_(A(2)); al_window(0); RPTR(cJSON_DetachItemFromObject(N_(A(1)), k));
    } else if (!strcmp(a, "DetachItemFromObjectCaseSensitive")) { char *k = K_(A(2)); al_window(0); RPTR(cJSON_DetachItemFromObjectCaseSensitive(N_(A(1)), k));
    } else if (!strcmp(a, "Delete")) { al_window(0); cJSON_Delete(N_(A(1))); r->t = 3;
    } else if (!strcmp(a, "DeleteItemFromArray")) { al_window(0); cJSON_DeleteItemFromArray(N_(A(1)), (int)jv_int(A(2))); r->t = 3;
    } else if (!strcmp(a, "DeleteItemFromObject")) { char *k = K_(A(2)); al_window(0); cJSON_DeleteItemFromObject(N_(A(1)), k); r->t = 3;
    } else if (!strcmp(a, "DeleteItemFromObjectCaseSensitive")) { char *k = K_(A(2)); al_window(0); cJSON_DeleteItemFromObjectCaseSensitive(N_(A(1)), k); r->t = 3;
    } else if (!strcmp(a, "InsertItemInArray")) { al_window(0); RBOOL(cJSON_InsertItemInArray(N_(A(1)), (int)jv_int(A(2)), N_(A(3))));
    } else if (!strcmp(a, "ReplaceItemViaPointer")) { al_window(0); RBOOL(cJSON_ReplaceItemViaPointer(N_(A(1)), N_(A(2)), N_(A(3))));
    } else if (!strcmp(a, "ReplaceItemInArray")) { al_window(0); RBOOL(cJSON_ReplaceItemInArray(N_(A(1)), (int)jv_int(A(2)), N_(A(3))));
    } else if (!strcmp(a, "ReplaceItemInObject")) { char *k = K_(A(2)); WIN(4); RBOOL(cJSON_ReplaceItemInObject(N_(A(1)), k, N_(A(3))));
    } else if (!strcmp(a, "ReplaceItemInObjectCaseSensitive")) { char *k = K_(A(2)); WIN(4); RBOOL(cJSON_ReplaceItemInObjectCaseSensitive(N_(A(1)), k, N_(A(3))));
    } else if (!strcmp(a, "SetNumberHelper")) { al_window(0); r->d = cJSON_SetNumberHelper(N_(A(1)), (double)jv_int(A(2))); r->t = 4;
    } else if (!strcmp(a, "SetValuestring")) { char *s = K_(A(2)); cJSON *it = N_(A(1)); WIN(3); r->s = cJSON_SetValuestring(it, s); r->t = r->s ? 5 : 0;
        if (r->s && it && r->s != it->valuestring) { snprintf(why, wn, "SetValuestring returned a pointer that is not the item's valuestring"); return STRUCT_FAIL; }
    } else if (!strcmp(a, "SetBoolValue")) { cJSON *it = N_(A(1)); int b = (int)jv_int(A(2)); al_window(0); r->ty = cJSON_SetBoolValue(it, b); r->t = 6;
    } else if (!strcmp(a, "CreateIntArray")) {
        int cnt = (int)jv_int(A(1)); int isnull = (int)jv_int(A(2)); int nums[8] = {0}; size_t k; const jv *v = A(3);
        for (k = 0; k < 8 && v && k < v->n; k++) nums[k] = (int)jv_int(v->e[k]);
        WIN(4);
        {   unsigned long which = vd_salt() % 3;       /* which of the three numeric bulk constructors: by content hash, so that every (count, refused request) meets each */
        if (which == 0) RPTR(cJSON_CreateIntArray(isnull ? NULL : nums, cnt));
        else if (which == 1) { double d[8]; for (k = 0; k < 8; k++) d[k] = nums[k]; RPTR(cJSON_CreateDoubleArray(isnull ? NULL : d, cnt)); }
        else { float d[8]; for (k = 0; k < 8; k++) d[k] = (float)nums[k]; RPTR(cJSON_CreateFloatArray(isnull ? NULL : d, cnt)); } }
    } else if (!strcmp(a, "CreateStringArray")) {
        int cnt = (int)jv_int(A(1)); int isnull = (int)jv_int(A(2)); const char *strs[8]; size_t k; const jv *v = A(3);
        for (k = 0; k < 8 && v && k < v->n; k++) strs[k] = K_(v->e[k]);
        WIN(4); RPTR(cJSON_CreateStringArray(isnull ? NULL : strs, cnt));
    } else if (!strcmp(a, "Duplicate")) { WIN(3); RPTR(cJSON_Duplicate(N_(A(1)), (cJSON_bool)vb_truthy((int)jv_int(A(2)), vd_salt())));
    } else if (!strcmp(a, "AddItemReferenceToObjectAlias")) { cJSON *it = N_(A(2)); WIN(3); RBOOL(cJSON_AddItemReferenceToObject(N_(A(1)), it->string, it));
    } else if (!strcmp(a, "AddItemToObjectAlias")) { cJSON *it = N_(A(2)); WIN(3); RBOOL(cJSON_AddItemToObject(N_(A(1)), it->string, it));
    } else if (!strcmp(a, "ReplaceItemInObjectAlias")) { cJSON *it = N_(A(2)); WIN(4);
        if (jv_int(A(3))) RBOOL(cJSON_ReplaceItemInObjectCaseSensitive(N_(A(1)), it->string, it)); else RBOOL(cJSON_ReplaceItemInObject(N_(A(1)), it->string, it));
    } else if (!strcmp(a, "AddItemToObjectAliasAt")) { cJSON *it = N_(A(2)); WIN(4); RBOOL(cJSON_AddItemToObject(N_(A(1)), it->string + jv_int(A(3)), it));
    } else if (!strcmp(a, "ReplaceItemInObjectAliasAt")) { cJSON *it = N_(A(2)); WIN(5);
        if (jv_int(A(4))) RBOOL(cJSON_ReplaceItemInObjectCaseSensitive(N_(A(1)), it->string + jv_int(A(3)), it)); else RBOOL(cJSON_ReplaceItemInObject(N_(A(1)), it->string + jv_int(A(3)), it));
    } else if (!strcmp(a, "EnvMakeCycle")) { N_(A(1))->child = N_(A(2)); r->t = 3;      /* the caller's own doing, not a library call */
    } else if (!strcmp(a, "EnvBreakCycle")) { N_(A(1))->child = NULL; r->t = 3;
    } else if (!strcmp(a, "SortObject")) { al_window(0); if (jv_int(A(2))) cJSONUtils_SortObjectCaseSensitive(N_(A(1))); else cJSONUtils_SortObject(N_(A(1))); r->t = 3;
    } else { snprintf(why, wn, "unknown action %s", a); return STRUCT_FAIL; }
    al_fail_at = 0;
    return 1;
}

/* does concrete result r agree with the model's result record? binds a pointer result */
static int match_res(const jv *res, const cres *r, char *why, size_t wn)
{
    const char *t = jv_get(res, "t")->s;
    if (!strcmp(t, "null")) { if (r->t != 0) { snprintf(why, wn, "result should be NULL"); return STRUCT_FAIL; } return 1; }
    if (!strcmp(t, "ptr")) {
        long id = jv_int(jv_get(res, "id"));
        if (r->t != 1) { snprintf(why, wn, "result is %s, expected node %ld", r->t == 0 ? "NULL" : "of another kind", id); return STRUCT_FAIL; }
        if (bp[id] && bp[id] != r->ptr) { snprintf(why, wn, "result designates another node than %ld", id); return STRUCT_FAIL; }
        if (!bp[id]) { size_t j; for (j = 1; j <= NN; j++) if (bp[j] == r->ptr) { snprintf(why, wn, "result designates existing node %zu, expected new node %ld", j, id); return STRUCT_FAIL; } bp[id] = r->ptr; }
        return 1;
    }
    if (!strcmp(t, "bool")) { if (r->t != 2 || r->b != (int)jv_int(jv_get(res, "v"))) { snprintf(why, wn, "result flag is %d, expected %ld", r->b, jv_int(jv_get(res, "v"))); return STRUCT_FAIL; } return 1; }
    if (!strcmp(t, "void")) return 1;
    if (!strcmp(t, "num")) { if (r->t != 4 || r->d != (double)jv_int(jv_get(res, "v"))) { snprintf(why, wn, "numeric result %g, expected %ld", r->d, jv_int(jv_get(res, "v"))); return STRUCT_FAIL; } return 1; }
    if (!strcmp(t, "str")) { int isnull; char *s = jv_bytes(jv_get(res, "v"), &isnull); if (r->t != 5 || !str_readable(r->s) || strcmp(r->s, s) != 0) { snprintf(why, wn, "string result differs"); return STRUCT_FAIL; } return 1; }
    if (!strcmp(t, "type")) { int e = kind_code(jv_get(res, "v")->s); if (r->t != 6 || r->ty != e) { snprintf(why, wn, "type result 0x%x, expected 0x%x", (unsigned)r->ty, (unsigned)e); return STRUCT_FAIL; } return 1; }
    snprintf(why, wn, "unknown result kind %s", t);
    return 0;
}

static void case_begin(void) { al_case_begin(); cm_case_begin(); }

/* which properties an observation on this call contradicts: kind 0 = memory fault (all), 1 = list model, 2 = ownership */
static void tviol(const jv *act, int kind, const char *msg)
{
    const char *a = jv_at(act, 0)->s; char owners[64] = ""; long f = 0;
    const jv *last = jv_at(act, act->n - 1);
    if (last && last->t == JV_INT && (strstr(a, "Create") || strstr(a, "Add") || strstr(a, "Replace") || !strcmp(a, "Duplicate") || !strcmp(a, "SetValuestring"))) f = last->i;
    if (kind == 0) strcat(owners, "*");
    else {
        strcat(owners, kind == 1 ? "C06 " : "C07 C14 ");      /* the tree runs are made under custom hooks: a block released twice / never / with a foreign pointer contradicts C14 as well */
        if (kind == 2 && strstr(msg, "should be live")) strcat(owners, "C06 ");      /* a member that no longer exists: the container does not hold what the list model says */
        if (kind == 1 && (strstr(msg, "type is") || strstr(msg, "key") || strstr(msg, "valuestring"))) strcat(owners, "C07 ");
        if (strstr(a, "Alias") && !strstr(owners, "C07")) strcat(owners, "C07 ");      /* C07: "a key passed to an add or replace call may alias memory of the item being added" */
        if (f > 0) strcat(owners, "C08 ");
        if (!strcmp(a, "Duplicate")) strcat(owners, "C11 ");
        if (!strcmp(a, "SortObject")) strcat(owners, "C19 C06 ");
    }
    if (owners[0] != '*' && strstr(owners, VD.prop) == NULL) { VD.by_kind[0]++; return; }
    vd_violation("%s: %s", a, msg);
}

static int jv_same(const jv *a, const jv *b)
{
    size_t k;
    if (!a || !b) return a == b;
    if (a->t != b->t || a->n != b->n) return 0;
    if (a->t == JV_INT || a->t == JV_BOOL) return a->i == b->i;
    if (a->t == JV_STR) return !strcmp(a->s, b->s);
    for (k = 0; k < a->n; k++) if (!jv_same(a->e[k], b->e[k])) return 0;
    return 1;
}
static int do_transition(const jv *line)
{
    const jv *act = jv_at(line, 1), *pre = jv_at(line, 2), *outs = jv_at(line, 3);
    char why[512] = "", why1[512] = ""; cres r; size_t k; int ok = 0; size_t matched = 0; int kind1 = 1;
    case_begin();
    if (!concretise(pre, why, sizeof(why))) { fprintf(stderr, "vdrv: %s\n", why); return -1; }
    { size_t i; for (i = 1; i <= NN; i++) if (np[i]) { raw_snap[i] = *np[i]; raw_snap[i].valueint = np[i]->valueint = (np[i]->type & 0xFF) == cJSON_Number ? np[i]->valueint : (int)(7 + i); raw_snap[i].valueint = np[i]->valueint; } }
    if (VD_TRY()) {
        al_in_call = 1;
        if (!run_call(act, &r, why, sizeof(why))) { al_in_call = 0; VD_END(); if (strstr(why, "unknown action") || strstr(why, "bad kind")) { fprintf(stderr, "vdrv: %s\n", why); return -1; } tviol(act, 1, why); return 0; }
        al_in_call = 0;
        /* ownership observations that do not depend on which outcome the call took: borrowed memory untouched, no release of
         * anything that is not a live block, nothing written past the end of a block */
        { char ow[300] = "";
          if (!cm_intact(ow, sizeof(ow))) tviol(act, 2, ow);
          else if (al_bad_free) { snprintf(ow, sizeof(ow), "%ld release(s) of a pointer that is not a live block (double or foreign free)", al_bad_free); tviol(act, 2, ow); }
          else if (!al_check_redzones()) { tviol(act, 2, "wrote beyond the end of an allocated block"); al_overflow = 0; } }
        for (k = 0; k < outs->n && !ok; k++) {
            const jv *post = jv_at(outs->e[k], 0), *res = jv_at(outs->e[k], 1);
            memcpy(bp, np, sizeof(bp));
            /* ids that are free in the pre-state are unbound */
            { size_t i; for (i = 1; i <= NN; i++) if (!is_live_rec(pre->e[i-1])) bp[i] = NULL; }
            why_kind = 1;
            if (match_res(res, &r, why, sizeof(why)) && compare_state(post, why, sizeof(why))) { ok = 1; matched = k; }
            else if (k == 0) { memcpy(why1, why, sizeof(why1)); kind1 = why_kind; }
        }
        if (ok && jv_same(jv_at(outs->e[matched], 0), pre)) {
            /* the model says the call changed nothing (refused argument, refused allocation request): then no node was touched at all, not even in the
             * payload fields its type does not use (C08: no pre-existing tree is modified; C06: a refused call leaves every container unchanged) */
            size_t i; for (i = 1; i <= NN; i++) if (np[i] && (raw_snap[i].type != np[i]->type || raw_snap[i].valueint != np[i]->valueint || memcmp(&raw_snap[i].valuedouble, &np[i]->valuedouble, sizeof(double)) != 0)) {      /* (pointers are covered by the state comparison: a key may legitimately be a fresh copy) */
                ok = 0; kind1 = 1; snprintf(why1, sizeof(why1), "the call is specified to leave everything unchanged, but node %zu was written to (a field its type does not use: valueint %d -> %d, valuedouble %g -> %g)", i, raw_snap[i].valueint, np[i]->valueint, raw_snap[i].valuedouble, np[i]->valuedouble); break; }
        }
        if (ok) {
            /* epilogue (C07): releasing every caller-held root returns the allocator to balance */
            const jv *post = jv_at(outs->e[matched], 0); size_t i; int cyclic = 0;
            /* a structure the caller made cyclic by hand cannot be released by the library; it is taken apart first */
            for (i = 1; i <= NN; i++) if (is_live_rec(post->e[i-1]) && !fld(post->e[i-1], F_REF)) {
                long c = fld(post->e[i-1], F_CH);
                if (c && is_live_rec(post->e[c-1]) && fld(post->e[c-1], F_ROOT)) { bp[i]->child = NULL; cyclic = 1; }
            }
            (void)cyclic;
            for (i = 1; i <= NN; i++) if (is_live_rec(post->e[i-1]) && fld(post->e[i-1], F_ROOT)) cJSON_Delete(bp[i]);
            if (al_live != 0 || al_bad_free != 0) { ok = 0; kind1 = 2; snprintf(why1, sizeof(why1), "after deleting all roots %ld block(s) remain allocated and %ld invalid release(s) were made", al_live, al_bad_free); }
            else if (!cm_intact(why1, sizeof(why1))) { ok = 0; kind1 = 2; }
        }
        VD_END();
    } else {
        al_in_call = 0;
        snprintf(why1, sizeof(why1), "%s during the call (address %p)", vd_fault_sig == SIGALRM ? "no progress for 5 s (hang)" : "memory fault / abort", (void*)vd_fault_addr);
        ok = 0; kind1 = 0;
    }
    if (!ok) { tviol(act, kind1, why1); return 0; }
    if (matched > 0) VD.drift++;
    return 1;
}

/* S line: the model's answers to the query API in a state */
static int do_state(const jv *line)
{
    const jv *st = jv_at(line, 1), *q = jv_at(line, 2);
    char why[512] = ""; size_t p; int ok = 1;
    case_begin();
    if (!concretise(st, why, sizeof(why))) { fprintf(stderr, "vdrv: %s\n", why); return -1; }
    if (VD_TRY()) {
        al_in_call = 1;
        for (p = 1; p <= NN && ok; p++) {
            const jv *e = q->e[p-1]; cJSON *c = np[p]; long size, idx; const jv *kids, *keys; size_t k; cJSON *it; long cnt = 0;
            if (!e || e->t != JV_ARR || e->n == 0 || !c) continue;
            size = jv_int(jv_at(e, 0)); kids = jv_at(e, 1); keys = jv_at(e, 2);
            if (cJSON_GetArraySize(c) != (int)size) { snprintf(why, sizeof(why), "GetArraySize(node %zu) = %d, expected %ld", p, cJSON_GetArraySize(c), size); ok = 0; break; }
            for (idx = -1; idx <= size + 1 && ok; idx++) {
                cJSON *got = cJSON_GetArrayItem(c, (int)idx);
                cJSON *exp = (idx >= 0 && idx < size) ? np[jv_int(jv_at(kids, (size_t)idx))] : NULL;
                if (got != exp) { snprintf(why, sizeof(why), "GetArrayItem(node %zu, %ld) wrong", p, idx); ok = 0; }
            }
            cJSON_ArrayForEach(it, c) { if (cnt >= size || it != np[jv_int(jv_at(kids, (size_t)cnt))]) { snprintf(why, sizeof(why), "iteration over node %zu differs at position %ld", p, cnt); ok = 0; break; } cnt++; }
            if (ok && cnt != size) { snprintf(why, sizeof(why), "iteration over node %zu stops after %ld of %ld", p, cnt, size); ok = 0; }
            for (k = 0; keys && k < keys->n && ok; k++) {
                const jv *t3 = keys->e[k]; int isnull; char *name = jv_bytes(jv_at(t3, 0), &isnull);
                cJSON *ecs = np[jv_int(jv_at(t3, 1))], *eci = np[jv_int(jv_at(t3, 2))];
                if (cJSON_GetObjectItemCaseSensitive(c, name) != ecs) { snprintf(why, sizeof(why), "GetObjectItemCaseSensitive(node %zu, \"%s\") wrong", p, name); ok = 0; }
                else if (cJSON_GetObjectItem(c, name) != eci) { snprintf(why, sizeof(why), "GetObjectItem(node %zu, \"%s\") wrong", p, name); ok = 0; }
                else if ((cJSON_HasObjectItem(c, name) != 0) != (eci != NULL)) { snprintf(why, sizeof(why), "HasObjectItem(node %zu, \"%s\") wrong", p, name); ok = 0; }
            }
        }
        /* type predicates on every node */
        for (p = 1; p <= NN && ok; p++) if (np[p]) {
            int kc = np[p]->type & 0xFF; cJSON *c = np[p];
            if ((cJSON_IsNull(c) != 0) != (kc == cJSON_NULL) || (cJSON_IsArray(c) != 0) != (kc == cJSON_Array) || (cJSON_IsObject(c) != 0) != (kc == cJSON_Object)
                || (cJSON_IsString(c) != 0) != (kc == cJSON_String) || (cJSON_IsNumber(c) != 0) != (kc == cJSON_Number) || (cJSON_IsRaw(c) != 0) != (kc == cJSON_Raw)
                || (cJSON_IsTrue(c) != 0) != (kc == cJSON_True) || (cJSON_IsFalse(c) != 0) != (kc == cJSON_False) || (cJSON_IsBool(c) != 0) != (kc == cJSON_True || kc == cJSON_False)
                || cJSON_IsInvalid(c)) { snprintf(why, sizeof(why), "type predicate wrong on node %zu", p); ok = 0; }
            if (ok && (cJSON_GetStringValue(c) != ((kc == cJSON_String) ? c->valuestring : NULL))) { snprintf(why, sizeof(why), "GetStringValue wrong on node %zu", p); ok = 0; }
            if (ok && kc == cJSON_Number && cJSON_GetNumberValue(c) != c->valuedouble) { snprintf(why, sizeof(why), "GetNumberValue wrong on node %zu", p); ok = 0; }
        }
        al_in_call = 0;
        /* queries must not change anything */
        if (ok) { memcpy(bp, np, sizeof(bp)); ok = compare_state(st, why, sizeof(why)); }
        VD_END();
    } else { al_in_call = 0; snprintf(why, sizeof(why), "memory fault / hang during a query"); ok = 0; }
    if (!ok) { if (strstr(why, "memory fault") || strstr("C06", VD.prop)) vd_violation("query: %s", why); else VD.by_kind[0]++; return 0; }
    return 1;
}

/* how often each call was replayed, and how often it changed the state (vacuity control in the evidence) */
static struct { char name[48]; long n, changed; } actcnt[80]; static int nact;
static void count_action(const char *a, int changed)
{
    int i;
    for (i = 0; i < nact; i++) if (!strcmp(actcnt[i].name, a)) break;
    if (i == nact) { if (nact == 80) return; snprintf(actcnt[nact].name, sizeof(actcnt[nact].name), "%s", a); nact++; }
    actcnt[i].n++; if (changed) actcnt[i].changed++;
}
/* ------------------------------------------------------------------------------------------------------
 * Scalar accessors and the number setters over the whole number catalogue (NumCatalogue.tla: NumInt is the integer view the
 * specification demands - truncation toward zero, saturated to the int range).  Tree.tla carries numbers as opaque ids; what an
 * id means for valuedouble / valueint is tabulated by the catalogue and applied here to every constructor and setter. */
static void nviol(const char *fmt, ...)
{
    char msg[400]; va_list ap; va_start(ap, fmt); vsnprintf(msg, sizeof(msg), fmt, ap); va_end(ap);
    if (strstr("C06", VD.prop) == NULL) { VD.by_kind[0]++; return; }
    vd_violation("%s", msg);
}
static int same_bits(double a, double b) { return memcmp(&a, &b, sizeof(a)) == 0 || (a != a && b != b); }
static void number_cases(void)
{
    int i; char ver[32];
    case_begin(); VD.cases++;
    if (!VD_TRY()) { vd_violation("scalar accessors / number setters: memory fault"); return; }
    for (i = 1; i <= NUMCAT_COUNT; i++) {
        double d; int isnan_, iv = NUMCAT_INT[i]; cJSON *n, *o, *m; double r;
        memcpy(&d, &NUMCAT_BITS[i], sizeof(d)); isnan_ = (d != d);
        n = cJSON_CreateNumber(d);
        if (!n || (n->type & 0xFF) != cJSON_Number || !same_bits(n->valuedouble, d) || (!isnan_ && n->valueint != iv) || n->next || n->prev || n->child || n->string || n->valuestring)
            nviol("cJSON_CreateNumber(%s): valuedouble %.17g valueint %d, expected integer view %d", NUMCAT_TEXT[i], n ? n->valuedouble : 0.0, n ? n->valueint : 0, iv);
        if (n && !same_bits(cJSON_GetNumberValue(n), d)) nviol("cJSON_GetNumberValue differs from the number %s", NUMCAT_TEXT[i]);
        if (n && cJSON_GetStringValue(n) != NULL) nviol("cJSON_GetStringValue of a number is not NULL");
        cJSON_Delete(n);
        n = cJSON_CreateNumber(7.0); r = cJSON_SetNumberHelper(n, d);
        if (!same_bits(r, d) || !same_bits(n->valuedouble, d) || (!isnan_ && n->valueint != iv) || (n->type & 0xFF) != cJSON_Number)
            nviol("cJSON_SetNumberHelper(%s): returned %.17g, valuedouble %.17g valueint %d, expected integer view %d", NUMCAT_TEXT[i], r, n->valuedouble, n->valueint, iv);
        r = cJSON_SetNumberValue(n, 3.0); if (!same_bits(r, 3.0) || n->valueint != 3 || !same_bits(n->valuedouble, 3.0)) nviol("cJSON_SetNumberValue(3) after %s leaves valuedouble %.17g valueint %d", NUMCAT_TEXT[i], n->valuedouble, n->valueint);
        if (!isnan_) { (void)cJSON_SetIntValue(n, iv); if (n->valueint != iv || !same_bits(n->valuedouble, (double)iv)) nviol("cJSON_SetIntValue(%d) leaves valuedouble %.17g valueint %d", iv, n->valuedouble, n->valueint); }
        cJSON_Delete(n);
        o = cJSON_CreateObject(); m = cJSON_AddNumberToObject(o, "k", d);
        if (!m || o->child != m || !same_bits(m->valuedouble, d) || (!isnan_ && m->valueint != iv) || !m->string || strcmp(m->string, "k")) nviol("cJSON_AddNumberToObject(%s): member missing or with other fields", NUMCAT_TEXT[i]);
        cJSON_Delete(o);
    }
    {   /* type predicates and scalar accessors on every kind, and on NULL */
        cJSON *k[9]; int j; static const char *nm[9] = { "null", "true", "false", "number", "string", "raw", "array", "object", "NULL" };
        k[0] = cJSON_CreateNull(); k[1] = cJSON_CreateTrue(); k[2] = cJSON_CreateFalse(); k[3] = cJSON_CreateNumber(2); k[4] = cJSON_CreateString("s"); k[5] = cJSON_CreateRaw("r"); k[6] = cJSON_CreateArray(); k[7] = cJSON_CreateObject(); k[8] = NULL;
        for (j = 0; j < 9; j++) {
            int got[10], exp[10], q;
            got[0] = cJSON_IsNull(k[j]); got[1] = cJSON_IsTrue(k[j]); got[2] = cJSON_IsFalse(k[j]); got[3] = cJSON_IsNumber(k[j]); got[4] = cJSON_IsString(k[j]); got[5] = cJSON_IsRaw(k[j]); got[6] = cJSON_IsArray(k[j]); got[7] = cJSON_IsObject(k[j]);
            got[8] = cJSON_IsBool(k[j]); got[9] = cJSON_IsInvalid(k[j]);
            for (q = 0; q < 8; q++) exp[q] = (q == j); exp[8] = (j == 1 || j == 2); exp[9] = 0;
            for (q = 0; q < 10; q++) if ((got[q] != 0) != (exp[q] != 0)) nviol("type predicate %d on a %s item answers %d", q, nm[j], got[q]);
            if ((cJSON_GetStringValue(k[j]) != NULL) != (j == 4)) nviol("cJSON_GetStringValue on a %s item", nm[j]);
            if (j == 4 && cJSON_GetStringValue(k[j]) != k[j]->valuestring) nviol("cJSON_GetStringValue does not return the item's string");
            { double g = cJSON_GetNumberValue(k[j]); if (j == 3 ? !same_bits(g, 2.0) : (g == g)) nviol("cJSON_GetNumberValue on a %s item gives %.17g", nm[j], g); }
            if (cJSON_GetArraySize(k[j]) != 0 || cJSON_GetArrayItem(k[j], 0) != NULL || cJSON_GetObjectItem(k[j], "a") != NULL || cJSON_HasObjectItem(k[j], "a")) nviol("size / item queries on an empty or scalar %s item", nm[j]);
        }
        for (j = 0; j < 8; j++) cJSON_Delete(k[j]);
    }
    snprintf(ver, sizeof(ver), "%d.%d.%d", CJSON_VERSION_MAJOR, CJSON_VERSION_MINOR, CJSON_VERSION_PATCH);
    if (!cJSON_Version() || strcmp(cJSON_Version(), ver)) nviol("cJSON_Version() is not %s", ver);
    if (al_live != 0 || al_bad_free) { if (strstr("C07 C06", VD.prop)) vd_violation("scalar accessors / number setters: %ld block(s) remain allocated, %ld invalid releases", al_live, al_bad_free); }
    VD_END();
}
int vd_tree_main(int argc, char **argv);
int vd_tree_main(int argc, char **argv)
{
    char *line = NULL; size_t cap = 0; ssize_t len;
    cJSON_Hooks hooks; long tl = 0, sl = 0, changed = 0; char extra[256];
    const char *stats = NULL; int k;
    for (k = 0; k < argc; k++) if (!strcmp(argv[k], "--stats") && k + 1 < argc) stats = argv[k + 1];
    hooks.malloc_fn = al_malloc; hooks.free_fn = al_free;
    cJSON_InitHooks(&hooks);
    vd_install_handlers();
    VD.curline = (char*)"# driver-built cases: scalar accessors and number setters over the catalogue"; number_cases(); VD.curline = NULL;
    while ((len = getline(&line, &cap, stdin)) > 0 || (len < 0 && errno == EINTR && !feof(stdin) && (clearerr(stdin), 1))) {
        if (len <= 0) continue;
        char *copy; jv *v; int rc;
        if (line[0] != '"') { if (VD.passthrough) fputs(line, VD.passthrough); continue; }
        copy = strdup(line);
        jv_reset();
        v = jv_parse_line(line);
        if (!v || v->t != JV_ARR || v->n < 3 || jv_at(v, 0)->t != JV_STR) { if (VD.passthrough) fputs(copy, VD.passthrough); free(copy); continue; }
        VD.curline = copy; VD.cases++;
        if (jv_at(v, 0)->s[0] == 'T') {
            tl++;
            rc = do_transition(v);
            if (rc > 0) {
                const jv *pre = jv_at(v, 2), *post = jv_at(jv_at(jv_at(v, 3), 0), 0);
                /* non-trivial: the call changes the state */
                { char b1[8192], b2[8192]; FILE *f1 = fmemopen(b1, sizeof(b1), "w"), *f2 = fmemopen(b2, sizeof(b2), "w"); jv_print(f1, pre); jv_print(f2, post); fclose(f1); fclose(f2); if (strcmp(b1, b2) != 0) { changed++; VD.nontrivial++; } count_action(jv_at(jv_at(v, 1), 0)->s, strcmp(b1, b2) != 0); }
            }
        } else { sl++; rc = do_state(v); if (rc > 0) VD.nontrivial++; }
        if (rc < 0) { fprintf(stderr, "vdrv: cannot interpret line: %s\n", copy); free(copy); return 2; }
        if (VD.samplef && VD.samples < 6 && (VD.cases % 997 == 1 || VD.cases < 3)) { fputs(copy, VD.samplef); VD.samples++; }
        vd_tick();
        VD.curline = NULL; free(copy);
    }
    { static char big[8192]; size_t n = 0; int i;
      n += (size_t)snprintf(big + n, sizeof(big) - n, "\"t_lines\": %ld, \"s_lines\": %ld, \"state_changing\": %ld, \"other_property_violations\": %ld, \"per_action\": {", tl, sl, changed, VD.by_kind[0]);
      for (i = 0; i < nact && n < sizeof(big) - 100; i++) n += (size_t)snprintf(big + n, sizeof(big) - n, "%s\"%s\": \"%ld:%ld\"", i ? ", " : "", actcnt[i].name, actcnt[i].changed, actcnt[i].n);
      snprintf(big + n, sizeof(big) - n, "}");
      (void)extra;
      if (stats) vd_write_stats(stats, big); }
    return VD.violations ? 1 : 0;
}

/* ======================================================================================================
 * treerand mode: reverse conformance.  Random histories are run on the REAL library (no specification in
 * the loop); every call is logged with its arguments, result and the projected heap afterwards, in the
 * specification's vocabulary (node ids: the k-th new node in pre-order gets the k-th smallest free id).
 * Trace_Tree.tla accepts the log iff every step is a step of Tree.tla.
 * ====================================================================================================== */
#define RNMAX 32
static int RN = 10;                 /* node slots of the recorded histories (--nodes) */
static cJSON *rp[RNMAX + 1]; static int rroot[RNMAX + 1];
static FILE *tracef; static long trace_events;
static const char *RKEYS[] = { "a", "A", "b", "B", "ab", "\xc3\x84p", "z{", "Z[" };
#define NRKEYS 8
static const char *RSTRS[] = { "", "x", "xy", "hello" };
static unsigned rs_state;
static unsigned rnd(unsigned n) { rs_state = rs_state * 1103515245u + 12345u; return (rs_state >> 16) % (n ? n : 1); }

static int rid_of(const cJSON *p) { int i; if (!p) return 0; for (i = 1; i <= RN; i++) if (rp[i] == p) return i; return -1; }
static int rfree_count(void) { int i, n = 0; for (i = 1; i <= RN; i++) if (!rp[i]) n++; return n; }
static void rassign_new(cJSON *t, int isroot)          /* pre-order: unknown nodes get the smallest free ids */
{
    cJSON *c; int i;
    if (!t || !al_is_live(t)) return;
    if (rid_of(t) < 0) { for (i = 1; i <= RN; i++) if (!rp[i]) { rp[i] = t; rroot[i] = isroot; break; } }
    if (!(t->type & cJSON_IsReference)) for (c = t->child; c; c = c->next) rassign_new(c, 0);
}
static int rsubtree_has(const cJSON *t, const cJSON *x) { const cJSON *c; if (t == x) return 1; for (c = t->child; c; c = c->next) if (rsubtree_has(c, x)) return 1; return 0; }
static int rsubtree_size(const cJSON *t) { const cJSON *c; int n = 1; for (c = t->child; c; c = c->next) n += rsubtree_size(c); return n; }
static void jbytes(FILE *f, const char *s) { const unsigned char *p; int first = 1; if (!s) { fputs("[-1]", f); return; } fputc('[', f); for (p = (const unsigned char*)s; *p; p++) { fprintf(f, "%s%u", first ? "" : ",", *p); first = 0; } fputc(']', f); }
static const char *kind_name(int t) { switch (t & 0xFF) { case cJSON_NULL: return "null"; case cJSON_False: return "false"; case cJSON_True: return "true"; case cJSON_Number: return "num"; case cJSON_String: return "str"; case cJSON_Raw: return "raw"; case cJSON_Array: return "arr"; case cJSON_Object: return "obj"; default: return "invalid"; } }
static void log_post(void)
{
    int i, first;
    fputs(",\"post\":[", tracef);
    for (i = 1; i <= RN; i++) {
        cJSON *n = rp[i];
        if (i > 1) fputc(',', tracef);
        if (!n) { fputs("[]", tracef); continue; }
        fprintf(tracef, "[\"%s\",%s,%s,%d,%d,%d,", kind_name(n->type), (n->type & cJSON_IsReference) ? "true" : "false", (n->type & cJSON_StringIsConst) ? "true" : "false",
                rid_of(n->next), rid_of(n->prev), rid_of(n->child));
        jbytes(tracef, n->string); fputc(',', tracef); jbytes(tracef, n->valuestring);
        fprintf(tracef, ",%d,0,false,%s]", (n->type & 0xFF) == cJSON_Number ? n->valueint : 0, rroot[i] ? "true" : "false");
    }
    fputs("],\"q\":[", tracef);
    for (i = 1; i <= RN; i++) {
        cJSON *n = rp[i], *c; int k = 0;
        if (i > 1) fputc(',', tracef);
        if (!n || ((n->type & 0xFF) != cJSON_Array && (n->type & 0xFF) != cJSON_Object)) { fputs("[]", tracef); continue; }
        fprintf(tracef, "[%d,[", cJSON_GetArraySize(n));
        first = 1; for (c = cJSON_GetArrayItem(n, 0); c; c = cJSON_GetArrayItem(n, ++k)) { fprintf(tracef, "%s%d", first ? "" : ",", rid_of(c)); first = 0; if (k > RN) break; }
        fputs("]]", tracef);
    }
    fputs("]}\n", tracef);
}
static void after_call(cJSON *result_root)
{
    int i;
    for (i = 1; i <= RN; i++) if (rp[i] && !al_is_live(rp[i])) { rp[i] = NULL; rroot[i] = 0; }    /* released nodes give their ids back */
    if (result_root) rassign_new(result_root, 1);
    for (i = 1; i <= RN; i++) if (rp[i]) rassign_new(rp[i], rroot[i]);                             /* nodes created below existing ones */
}
static void res_ptr(cJSON *p) { if (p) fprintf(tracef, ",\"res\":{\"t\":\"ptr\",\"id\":%d}", rid_of(p)); else fputs(",\"res\":{\"t\":\"null\"}", tracef); }
static void res_bool(int b) { fprintf(tracef, ",\"res\":{\"t\":\"bool\",\"v\":%s}", b ? "true" : "false"); }

/* ---- library-level histories (--lib): value-level calls on the same pool, judged by Trace_Lib.tla on the value each node denotes ---- */
static int lib_mode, lib_focus = -1;
static char gbuf[8192]; static size_t gn; static int gvals;
static void gput(const char *x) { size_t k = strlen(x); if (gn + k + 1 < sizeof(gbuf)) { memcpy(gbuf + gn, x, k); gn += k; gbuf[gn] = 0; } }
static void gws(void) { static const char *W[] = { "", "", "", " ", "\n", "\t ", "\r" }; gput(W[rnd(7)]); }
static void gstr(const char *raw) { gput("\""); if (raw[0] == 'a' && rnd(6) == 0) { gput("\\u0061"); gput(raw + 1); } else if (raw[0] == 'x' && rnd(8) == 0) { gput("\\u0078"); gput(raw + 1); } else gput(raw); gput("\""); }
static void gen_value(int depth, int nullish)
{
    unsigned pick = rnd(depth > 0 ? 9 : 6); int i, n; char num[8];
    gvals++;
    switch (pick) {
        case 0: gput(nullish || rnd(2) ? "null" : "true"); break;
        case 1: gput("true"); break;
        case 2: gput("false"); break;
        case 3: snprintf(num, sizeof(num), "%u", rnd(3)); gput(num); break;
        case 4: case 5: gstr(RSTRS[rnd(4)]); break;
        case 6: n = (int)rnd(4); gput("["); gws(); for (i = 0; i < n; i++) { if (i) { gput(","); gws(); } gen_value(depth - 1, 0); } gput("]"); break;
        default: { unsigned start = rnd(NRKEYS); n = (int)rnd(4); gput("{"); gws();
            for (i = 0; i < n; i++) { if (i) { gput(","); gws(); } gstr(RKEYS[(start + (unsigned)i * 3u) % NRKEYS]); gws(); gput(":"); gws(); gen_value(depth - 1, nullish); }   /* 8 keys, step 3: distinct */
            gput("}"); break; }
    }
}
static void gen_text(int depth, int nullish) { gn = 0; gvals = 0; gbuf[0] = 0; gws(); gen_value(depth, nullish); gws(); }
static void gen_mutate(void)
{
    static const char M[] = "[]{},:\"\\ 1e-.x/";
    if (gn == 0) return;
    switch (rnd(3)) { case 0: gn = rnd((unsigned)gn); gbuf[gn] = 0; break;
        case 1: gbuf[rnd((unsigned)gn)] = M[rnd(sizeof(M) - 1)]; break;
        default: { size_t i = rnd((unsigned)gn); memmove(gbuf + i, gbuf + i + 1, gn - i); gn--; } }
}
static void jbytes_n(FILE *f, const char *s, size_t n) { size_t i; fputc('[', f); for (i = 0; i < n; i++) fprintf(f, "%s%u", i ? "," : "", (unsigned char)s[i]); fputc(']', f); }
static int rall_known(const cJSON *t) { const cJSON *c; if (!t) return 1; if (rid_of(t) < 0) return 0; if (!(t->type & cJSON_IsReference)) for (c = t->child; c; c = c->next) if (!rall_known(c)) return 0; return 1; }
static cJSON *rrandom_below(cJSON *t) { int steps = (int)rnd(4); while (steps-- > 0 && t->child) { int n = cJSON_GetArraySize(t), k = (int)rnd((unsigned)n); cJSON *c = t->child; while (k-- > 0 && c->next) c = c->next; t = c; } return t; }
static void res_text(const char *s) { if (s) { fputs(",\"res\":{\"t\":\"text\",\"v\":", tracef); jbytes(tracef, s); fputs("}", tracef); } else fputs(",\"res\":{\"t\":\"null\"}", tracef); }
/* one RFC 6902 operation aimed at the real document d (paths taken from its nodes), appended to gbuf */
static void gen_op(cJSON *d)
{
    static const char *OPS[] = { "add", "remove", "replace", "test", "copy", "move", "add", "test" };
    unsigned o = rnd(8); cJSON *x = rrandom_below(d), *y = rrandom_below(d); char *px = cJSONUtils_FindPointerFromObjectTo(d, x), *py = cJSONUtils_FindPointerFromObjectTo(d, y); char path[600];
    int xc = (x->type & 0xFF), garbage = rnd(12) == 0;
    snprintf(path, sizeof(path), "%s", px ? px : "");
    if ((o == 0 || o == 6 || o == 4 || o == 5) && (xc == cJSON_Array || xc == cJSON_Object) && rnd(3)) {      /* into the container */
        size_t k = strlen(path);
        if (xc == cJSON_Array) { if (rnd(2)) snprintf(path + k, sizeof(path) - k, "/-"); else snprintf(path + k, sizeof(path) - k, "/%u", rnd((unsigned)cJSON_GetArraySize(x) + 2)); }
        else snprintf(path + k, sizeof(path) - k, "/%s", RKEYS[rnd(NRKEYS)]);
    }
    if ((o == 4 || o == 5) && path[0] == 0) snprintf(path, sizeof(path), "/%s", RKEYS[rnd(NRKEYS)]);      /* copy / move onto the whole document: known finding, not generated */
    if (o == 1 && path[0] == 0) o = 3;                                                                    /* remove of the whole document: undefined by the RFC */
    if (garbage) { switch (rnd(4)) { case 0: path[0] = path[0] ? 'q' : 'r'; break; case 1: strcat(path, "/~2"); break; case 2: strcat(path, "/01"); break; default: strcat(path, "/nokey/x"); } }
    gput("{\"op\":\""); gput(garbage && rnd(3) == 0 ? "mov" : OPS[o]); gput("\",\"path\":\""); gput(path); gput("\"");
    if (o == 4 || o == 5) { gput(",\"from\":\""); gput(py ? py : ""); gput("\""); }
    if (o == 0 || o == 2 || o == 3 || o == 6 || o == 7) {
        if (!(garbage && rnd(2))) { gput(",\"value\":");
            if ((o == 3 || o == 7) && rnd(3)) { char *t = cJSON_PrintUnformatted(o == 3 ? x : y); gput(t ? t : "null"); cJSON_free(t); gvals += rsubtree_size(x) + rsubtree_size(y); }
            else { size_t keep = gn; int kv = gvals; char tmp[2048]; static char save[sizeof(gbuf)]; memcpy(save, gbuf, keep); gen_text(1, 0); snprintf(tmp, sizeof(tmp), "%s", gbuf); memcpy(gbuf, save, keep); gn = keep; gbuf[gn] = 0; gvals += kv; gput(tmp); } }
    }
    gput("}");
    if (o == 4) gvals += rsubtree_size(y);
    gvals += 4;
    cJSON_free(px); cJSON_free(py);
}
static void gen_patch(cJSON *d) { int n = 1 + (int)rnd(2), i; char keep[8192]; size_t kn; gn = 0; gvals = 1; gbuf[0] = 0; gput("[");
    for (i = 0; i < n; i++) { if (i) gput(","); kn = gn; memcpy(keep, gbuf, gn + 1); gen_op(d); (void)kn; } gput("]"); }

int vd_treerand_main(int argc, char **argv);
int vd_treerand_main(int argc, char **argv)
{
    int k, hist, histories = 30, steps = 150; const char *out = NULL, *stats = NULL; cJSON_Hooks hooks; unsigned seed = 1;
    for (k = 0; k < argc; k++) {
        if (!strcmp(argv[k], "--trace") && k + 1 < argc) out = argv[k + 1];
        if (!strcmp(argv[k], "--stats") && k + 1 < argc) stats = argv[k + 1];
        if (!strcmp(argv[k], "--seed") && k + 1 < argc) seed = (unsigned)atoi(argv[k + 1]);
        if (!strcmp(argv[k], "--histories") && k + 1 < argc) histories = atoi(argv[k + 1]);
        if (!strcmp(argv[k], "--steps") && k + 1 < argc) steps = atoi(argv[k + 1]);
        if (!strcmp(argv[k], "--nodes") && k + 1 < argc) { RN = atoi(argv[k + 1]); if (RN > RNMAX) RN = RNMAX; if (RN < 2) RN = 2; }
        if (!strcmp(argv[k], "--lib")) lib_mode = 1;
        if (!strcmp(argv[k], "--focus") && k + 1 < argc) lib_focus = atoi(argv[k + 1]);     /* value-level call kind that gets half of the value-level steps */
    }
    if (!out) { fprintf(stderr, "treerand: --trace <file> required\n"); return 2; }
    tracef = fopen(out, "w"); rs_state = seed * 2654435761u + 7;
    hooks.malloc_fn = al_malloc; hooks.free_fn = al_free; cJSON_InitHooks(&hooks);
    vd_install_handlers();
    for (hist = 0; hist < histories; hist++) {
        int step;
        al_case_begin(); cm_case_begin(); memset(rp, 0, sizeof(rp)); memset(rroot, 0, sizeof(rroot));
        fputs("{\"e\":\"Reset\"}\n", tracef);
        for (step = 0; step < steps; step++) {
            int conts[RNMAX], nc = 0, arrs[RNMAX], na = 0, objs[RNMAX], no = 0, roots[RNMAX], nr = 0, lives[RNMAX], nl = 0, i, op;
            for (i = 1; i <= RN; i++) if (rp[i]) { int kc = rp[i]->type & 0xFF; lives[nl++] = i; if (rroot[i]) roots[nr++] = i; if (kc == cJSON_Array) { arrs[na++] = i; conts[nc++] = i; } if (kc == cJSON_Object) { objs[no++] = i; conts[nc++] = i; } }
            op = (int)rnd(lib_mode ? 40 : 24);
            if (!VD_TRY()) { vd_violation("random history %d step %d: memory fault in the library", hist, step); fclose(tracef); return 1; }
            if (nl == 0 || (op < 5 && rfree_count() > 0)) {                        /* create */
                int what = (int)rnd(9); cJSON *n = NULL; const char *s = RSTRS[rnd(4)]; int num = (int)rnd(3);
                if (rfree_count() == 0) { VD_END(); continue; }
                switch (what) {
                    case 0: n = cJSON_CreateNull(); fprintf(tracef, "{\"e\":\"Call\",\"a\":[\"Create\",\"null\",0]"); break;
                    case 1: n = cJSON_CreateTrue(); fprintf(tracef, "{\"e\":\"Call\",\"a\":[\"Create\",\"true\",0]"); break;
                    case 2: n = cJSON_CreateBool(0); fprintf(tracef, "{\"e\":\"Call\",\"a\":[\"Create\",\"false\",0]"); break;
                    case 3: case 4: n = cJSON_CreateArray(); fprintf(tracef, "{\"e\":\"Call\",\"a\":[\"Create\",\"arr\",0]"); break;
                    case 5: case 6: n = cJSON_CreateObject(); fprintf(tracef, "{\"e\":\"Call\",\"a\":[\"Create\",\"obj\",0]"); break;
                    case 7: n = cJSON_CreateNumber(num); fprintf(tracef, "{\"e\":\"Call\",\"a\":[\"CreateNumber\",%d,0]", num); break;
                    default: n = rnd(4) ? cJSON_CreateString(s) : cJSON_CreateRaw(s); fprintf(tracef, "{\"e\":\"Call\",\"a\":[\"CreateStr\",\"%s\",", (n->type & 0xFF) == cJSON_Raw ? "raw" : "str"); jbytes(tracef, s); fputs(",0]", tracef); break;
                }
                after_call(n); res_ptr(n);
            } else if (op < 8 && na && nr) {                                   /* add / insert into array */
                int p = arrs[rnd((unsigned)na)], it = roots[rnd((unsigned)nr)]; int r;
                if (p != it && rsubtree_has(rp[it], rp[p])) { VD_END(); continue; }
                if (rnd(2)) { r = cJSON_AddItemToArray(rp[p], rp[it]); fprintf(tracef, "{\"e\":\"Call\",\"a\":[\"AddItemToArray\",%d,%d]", p, it); }
                else { int idx = (int)rnd(4) - 1; if (p == it) { VD_END(); continue; } r = cJSON_InsertItemInArray(rp[p], idx, rp[it]); fprintf(tracef, "{\"e\":\"Call\",\"a\":[\"InsertItemInArray\",%d,%d,%d]", p, idx, it); }
                if (r) rroot[it] = 0;
                after_call(NULL); res_bool(r);
            } else if (op < 12 && no && nr) {                                  /* add to object */
                int p = objs[rnd((unsigned)no)], it = roots[rnd((unsigned)nr)], r, mode = (int)rnd(3); const char *key = RKEYS[rnd(NRKEYS)];
                if (p != it && rsubtree_has(rp[it], rp[p])) { VD_END(); continue; }
                if (mode == 2 && rp[it]->string && p != it) { fprintf(tracef, "{\"e\":\"Call\",\"a\":[\"AddItemToObjectAlias\",%d,%d,0]", p, it); r = cJSON_AddItemToObject(rp[p], rp[it]->string, rp[it]); }
                else if (mode == 1) { char *ck = cm_string(key); r = cJSON_AddItemToObjectCS(rp[p], ck, rp[it]); fprintf(tracef, "{\"e\":\"Call\",\"a\":[\"AddItemToObjectCS\",%d,", p); jbytes(tracef, key); fprintf(tracef, ",%d,0]", it); }
                else { r = cJSON_AddItemToObject(rp[p], key, rp[it]); fprintf(tracef, "{\"e\":\"Call\",\"a\":[\"AddItemToObject\",%d,", p); jbytes(tracef, key); fprintf(tracef, ",%d,0]", it); }
                if (r) rroot[it] = 0;
                after_call(NULL); res_bool(r);
            } else if (op < 13 && no && rfree_count() > 0) {                   /* Add<X>ToObject */
                int p = objs[rnd((unsigned)no)]; const char *key = RKEYS[rnd(NRKEYS)]; cJSON *n; int what = (int)rnd(4);
                if (what == 0) { n = cJSON_AddNullToObject(rp[p], key); fprintf(tracef, "{\"e\":\"Call\",\"a\":[\"AddNewToObject\",%d,", p); jbytes(tracef, key); fputs(",\"null\",[-1],0,0]", tracef); }
                else if (what == 1) { n = cJSON_AddNumberToObject(rp[p], key, 2); fprintf(tracef, "{\"e\":\"Call\",\"a\":[\"AddNewToObject\",%d,", p); jbytes(tracef, key); fputs(",\"num\",[-1],2,0]", tracef); }
                else if (what == 2) { n = cJSON_AddStringToObject(rp[p], key, "xy"); fprintf(tracef, "{\"e\":\"Call\",\"a\":[\"AddNewToObject\",%d,", p); jbytes(tracef, key); fputs(",\"str\",[120,121],0,0]", tracef); }
                else { n = cJSON_AddArrayToObject(rp[p], key); fprintf(tracef, "{\"e\":\"Call\",\"a\":[\"AddNewToObject\",%d,", p); jbytes(tracef, key); fputs(",\"arr\",[-1],0,0]", tracef); }
                after_call(NULL); res_ptr(n);
            } else if (op < 16 && nc) {                                        /* detach */
                int p = conts[rnd((unsigned)nc)]; cJSON *d; int mode = (int)rnd(4);
                if (mode == 0) { int n = cJSON_GetArraySize(rp[p]); cJSON *c = n ? cJSON_GetArrayItem(rp[p], (int)rnd((unsigned)n)) : NULL; if (!c) { VD_END(); continue; } fprintf(tracef, "{\"e\":\"Call\",\"a\":[\"DetachItemViaPointer\",%d,%d]", p, rid_of(c)); d = cJSON_DetachItemViaPointer(rp[p], c); }
                else if (mode == 1 && (rp[p]->type & 0xFF) == cJSON_Array) { int idx = (int)rnd(5) - 1; fprintf(tracef, "{\"e\":\"Call\",\"a\":[\"DetachItemFromArray\",%d,%d]", p, idx); d = cJSON_DetachItemFromArray(rp[p], idx); }
                else if ((rp[p]->type & 0xFF) == cJSON_Object) { const char *key = RKEYS[rnd(NRKEYS)]; int cs = (int)rnd(2); fprintf(tracef, "{\"e\":\"Call\",\"a\":[\"%s\",%d,", cs ? "DetachItemFromObjectCaseSensitive" : "DetachItemFromObject", p); jbytes(tracef, key); fputs("]", tracef); d = cs ? cJSON_DetachItemFromObjectCaseSensitive(rp[p], key) : cJSON_DetachItemFromObject(rp[p], key); }
                else { VD_END(); continue; }
                if (d) rroot[rid_of(d)] = 1;
                after_call(NULL); res_ptr(d);
            } else if (op < 18 && nr) {                                        /* delete a root / delete from container */
                int it = roots[rnd((unsigned)nr)];
                if (nc && rnd(2)) { int p = conts[rnd((unsigned)nc)];
                    if ((rp[p]->type & 0xFF) == cJSON_Array) { int idx = (int)rnd(4) - 1; fprintf(tracef, "{\"e\":\"Call\",\"a\":[\"DeleteItemFromArray\",%d,%d]", p, idx); cJSON_DeleteItemFromArray(rp[p], idx); }
                    else { const char *key = RKEYS[rnd(NRKEYS)]; int cs = (int)rnd(2); fprintf(tracef, "{\"e\":\"Call\",\"a\":[\"%s\",%d,", cs ? "DeleteItemFromObjectCaseSensitive" : "DeleteItemFromObject", p); jbytes(tracef, key); fputs("]", tracef); if (cs) cJSON_DeleteItemFromObjectCaseSensitive(rp[p], key); else cJSON_DeleteItemFromObject(rp[p], key); }
                } else { fprintf(tracef, "{\"e\":\"Call\",\"a\":[\"Delete\",%d]", it); cJSON_Delete(rp[it]); }
                after_call(NULL); fputs(",\"res\":{\"t\":\"void\"}", tracef);
            } else if (op < 21 && nc && nr) {                                  /* replace */
                int p = conts[rnd((unsigned)nc)], r = roots[rnd((unsigned)nr)], ok, mode = (int)rnd(3), isobj = (rp[p]->type & 0xFF) == cJSON_Object;
                if (rsubtree_has(rp[r], rp[p])) { VD_END(); continue; }
                if (mode == 0) { int n = cJSON_GetArraySize(rp[p]); cJSON *c = n ? cJSON_GetArrayItem(rp[p], (int)rnd((unsigned)n)) : NULL; if (!c || (isobj && !rp[r]->string)) { VD_END(); continue; }
                    fprintf(tracef, "{\"e\":\"Call\",\"a\":[\"ReplaceItemViaPointer\",%d,%d,%d]", p, rid_of(c), r); ok = cJSON_ReplaceItemViaPointer(rp[p], c, rp[r]); }
                else if (!isobj) { int idx = (int)rnd(4) - 1; fprintf(tracef, "{\"e\":\"Call\",\"a\":[\"ReplaceItemInArray\",%d,%d,%d]", p, idx, r); ok = cJSON_ReplaceItemInArray(rp[p], idx, rp[r]); }
                else { const char *key = RKEYS[rnd(NRKEYS)]; int cs = (int)rnd(2); fprintf(tracef, "{\"e\":\"Call\",\"a\":[\"%s\",%d,", cs ? "ReplaceItemInObjectCaseSensitive" : "ReplaceItemInObject", p); jbytes(tracef, key); fprintf(tracef, ",%d,0]", r);
                    ok = cs ? cJSON_ReplaceItemInObjectCaseSensitive(rp[p], key, rp[r]) : cJSON_ReplaceItemInObject(rp[p], key, rp[r]); }
                if (ok) rroot[r] = 0;
                after_call(NULL); res_bool(ok);
            } else if (op < 22 && nl) {                                        /* set */
                int it = lives[rnd((unsigned)nl)], kc = rp[it]->type & 0xFF;
                if (kc == cJSON_Number) { int v = (int)rnd(3); double d = cJSON_SetNumberHelper(rp[it], v); fprintf(tracef, "{\"e\":\"Call\",\"a\":[\"SetNumberHelper\",%d,%d]", it, v); after_call(NULL); fprintf(tracef, ",\"res\":{\"t\":\"num\",\"v\":%d}", (int)d); }
                else if (kc == cJSON_True || kc == cJSON_False) { int b = (int)rnd(2); int t = cJSON_SetBoolValue(rp[it], b); fprintf(tracef, "{\"e\":\"Call\",\"a\":[\"SetBoolValue\",%d,%s]", it, b ? "true" : "false"); after_call(NULL); fprintf(tracef, ",\"res\":{\"t\":\"type\",\"v\":\"%s\"}", kind_name(t)); }
                else { const char *s = RSTRS[rnd(4)]; char *r = cJSON_SetValuestring(rp[it], s); fprintf(tracef, "{\"e\":\"Call\",\"a\":[\"SetValuestring\",%d,", it); jbytes(tracef, s); fputs(",0]", tracef); after_call(NULL);
                    if (r) { fputs(",\"res\":{\"t\":\"str\",\"v\":", tracef); jbytes(tracef, r); fputs("}", tracef); } else fputs(",\"res\":{\"t\":\"null\"}", tracef); }
            } else if (op < 23 && nl) {                                        /* duplicate */
                int it = lives[rnd((unsigned)nl)], rec = (int)rnd(2); cJSON *d;
                if ((rec ? rsubtree_size(rp[it]) : 1) > rfree_count()) { VD_END(); continue; }
                d = cJSON_Duplicate(rp[it], vb_truthy(rec, (unsigned long)step)); fprintf(tracef, "{\"e\":\"Call\",\"a\":[\"Duplicate\",%d,%s,0]", it, rec ? "true" : "false");
                after_call(d); res_ptr(d);
            } else if (op >= 24 && lib_mode) {                              /* value-level calls */
                int kind = op - 24, ok = 1;
                if (lib_focus >= 0 && rnd(2)) kind = lib_focus == 8 ? 8 + (int)rnd(2) : lib_focus;
                if (kind < 3) {                                             /* Parse */
                    cJSON *t; gen_text(2, 0); if (rnd(5) == 0) gen_mutate();
                    if (gvals + 2 > rfree_count() || memchr(gbuf, 0, gn)) { VD_END(); continue; }
                    t = rnd(2) ? cJSON_ParseWithLength(gbuf, gn) : cJSON_Parse(gbuf);
                    fputs("{\"e\":\"Call\",\"a\":[\"Parse\",", tracef); jbytes_n(tracef, gbuf, gn); fputs("]", tracef);
                    after_call(t); if (t && !rall_known(t)) ok = 0; res_ptr(t);
                } else if (kind < 6 && nl) {                                /* Print */
                    int it = lives[rnd((unsigned)nl)], fmt = (int)rnd(2), how = (int)rnd(3); char *t; static char pre[8192];
                    if (how == 0) t = fmt ? cJSON_Print(rp[it]) : cJSON_PrintUnformatted(rp[it]);
                    else if (how == 1) t = cJSON_PrintBuffered(rp[it], (int)rnd(40), vb_truthy(fmt, (unsigned long)step));
                    else { t = cJSON_PrintPreallocated(rp[it], pre, (int)sizeof(pre), vb_truthy(fmt, (unsigned long)step + 1)) ? pre : NULL; }
                    fprintf(tracef, "{\"e\":\"Call\",\"a\":[\"Print\",%d,%s]", it, fmt ? "true" : "false"); after_call(NULL); res_text(t);
                    if (how != 2) cJSON_free(t);
                } else if (kind < 8 && nl) {                                /* Compare */
                    int a = lives[rnd((unsigned)nl)], b = lives[rnd((unsigned)nl)], cs = (int)rnd(2), r;
                    r = cJSON_Compare(rp[a], rp[b], vb_truthy(cs, (unsigned long)step));
                    fprintf(tracef, "{\"e\":\"Call\",\"a\":[\"Compare\",%d,%d,%s]", a, b, cs ? "true" : "false"); after_call(NULL); res_bool(r);
                } else if (kind < 10 && nr) {                               /* pointer lookup / construction */
                    int d = roots[rnd((unsigned)nr)]; cJSON *x = rrandom_below(rp[d]);
                    if (kind == 8) { char *ptr = cJSONUtils_FindPointerFromObjectTo(rp[d], x); char buf[700]; cJSON *got;
                        snprintf(buf, sizeof(buf), "%s", ptr ? ptr : "/"); cJSON_free(ptr);
                        switch (rnd(6)) { case 0: strcat(buf, "/0"); break; case 1: strcat(buf, "/a"); break; case 2: if (buf[0]) buf[strlen(buf) - 1] = 0; break; case 3: strcat(buf, "/-"); break; default: break; }
                        got = cJSONUtils_GetPointerCaseSensitive(rp[d], buf);
                        fprintf(tracef, "{\"e\":\"Call\",\"a\":[\"GetPointer\",%d,", d); jbytes(tracef, buf); fputs("]", tracef); after_call(NULL);
                        if (got && rid_of(got) < 0) ok = 0; res_ptr(got);
                    } else { int tgt = rnd(4) ? rid_of(x) : lives[rnd((unsigned)nl)]; char *ptr = cJSONUtils_FindPointerFromObjectTo(rp[d], rp[tgt]);
                        fprintf(tracef, "{\"e\":\"Call\",\"a\":[\"FindPointer\",%d,%d]", d, tgt); after_call(NULL); res_text(ptr); cJSON_free(ptr); }
                } else if (kind < 12 && nr) {                               /* ApplyPatches (case sensitive) with a patch parsed from text */
                    int d = roots[rnd((unsigned)nr)], st; cJSON *patch;
                    gen_patch(rp[d]);
                    if (gvals + rsubtree_size(rp[d]) > rfree_count()) { VD_END(); continue; }
                    patch = cJSON_ParseWithLength(gbuf, gn);
                    if (!patch) { VD_END(); continue; }
                    st = cJSONUtils_ApplyPatchesCaseSensitive(rp[d], patch); cJSON_Delete(patch);
                    fprintf(tracef, "{\"e\":\"Call\",\"a\":[\"ApplyPatches\",%d,", d); jbytes_n(tracef, gbuf, gn); fputs("]", tracef);
                    after_call(NULL); if (!rall_known(rp[d])) ok = 0; fprintf(tracef, ",\"res\":{\"t\":\"int\",\"v\":%d}", st);
                } else if (kind < 13 && nr) {                               /* MergePatch */
                    int d = roots[rnd((unsigned)nr)]; cJSON *patch, *res;
                    gen_text(2, 1);
                    if (gvals + 2 > rfree_count()) { VD_END(); continue; }
                    patch = cJSON_ParseWithLength(gbuf, gn); if (!patch) { VD_END(); continue; }
                    res = cJSONUtils_MergePatchCaseSensitive(rp[d], patch); cJSON_Delete(patch);
                    fprintf(tracef, "{\"e\":\"Call\",\"a\":[\"MergePatch\",%d,", d); jbytes_n(tracef, gbuf, gn); fputs("]", tracef);
                    if (res != rp[d]) rroot[d] = 0;
                    after_call(res); if (res) rroot[rid_of(res)] = 1; if (!res || !rall_known(res)) ok = 0; res_ptr(res);
                } else if (kind < 16 && nr >= 2) {                          /* patch / merge-patch generation between two trees the caller holds */
                    int a = roots[rnd((unsigned)nr)], b = roots[rnd((unsigned)nr)]; cJSON *g; char *t;
                    if (a == b) { VD_END(); continue; }
                    if (kind == 13 || kind == 14) { g = cJSONUtils_GeneratePatchesCaseSensitive(rp[a], rp[b]); fprintf(tracef, "{\"e\":\"Call\",\"a\":[\"GeneratePatches\",%d,%d]", a, b); }
                    else { g = cJSONUtils_GenerateMergePatchCaseSensitive(rp[a], rp[b]); fprintf(tracef, "{\"e\":\"Call\",\"a\":[\"GenerateMergePatch\",%d,%d]", a, b); }
                    t = g ? cJSON_PrintUnformatted(g) : NULL; cJSON_Delete(g);
                    after_call(NULL); res_text(t); cJSON_free(t);
                } else { VD_END(); continue; }
                if (!ok) {      /* the pool is too small to name what the call created: the history ends here (nothing is concluded from this call) */
                    int i; VD_END(); fputs(",\"skip\":true,\"post\":[],\"q\":[]}\n{\"e\":\"Reset\"}\n", tracef);
                    for (i = 1; i <= RN; i++) if (rp[i] && rroot[i] && al_is_live(rp[i])) cJSON_Delete(rp[i]);
                    memset(rp, 0, sizeof(rp)); memset(rroot, 0, sizeof(rroot)); al_case_begin(); cm_case_begin(); continue;
                }
            } else if (no) {                                                   /* sort */
                int p = objs[rnd((unsigned)no)], cs = (int)rnd(2);
                if (cs) cJSONUtils_SortObjectCaseSensitive(rp[p]); else cJSONUtils_SortObject(rp[p]);
                fprintf(tracef, "{\"e\":\"Call\",\"a\":[\"SortObject\",%d,%s]", p, cs ? "true" : "false"); after_call(NULL); fputs(",\"res\":{\"t\":\"void\"}", tracef);
            } else { VD_END(); continue; }
            VD_END();
            log_post(); trace_events++; VD.cases++; VD.nontrivial++;
            if (al_bad_free) { vd_violation("random history %d step %d: invalid release", hist, step); fclose(tracef); return 1; }
        }
        /* end of history: release everything the caller holds; the allocator must balance */
        { int i; for (i = 1; i <= RN; i++) if (rp[i] && rroot[i]) cJSON_Delete(rp[i]); }
        if (al_live != 0 || al_bad_free) { vd_violation("random history %d: %ld block(s) remain after all roots were deleted, %ld invalid releases", hist, al_live, al_bad_free); }
    }
    fclose(tracef);
    { char extra[128]; snprintf(extra, sizeof(extra), "\"histories\": %d, \"events\": %ld", histories, trace_events); if (stats) vd_write_stats(stats, extra); }
    return VD.violations ? 1 : 0;
}
