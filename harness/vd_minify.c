/* minify mode (C13): ["M", text, predicted result, input is JSON-with-comments] lines of MC_Minify.tla.
 * The buffer is placed so that its terminator is the last accessible byte; the area before it is a canary. */
#include "base.h"
#include "cJSON.h"
#define PAGE 4096
static unsigned char *region, *data_lo, *data_hi;

int vd_minify_main(int argc, char **argv);
int vd_minify_main(int argc, char **argv)
{
    char *line = NULL; size_t cap = 0; ssize_t len; const char *stats = NULL; int k; long valid_n = 0; char extra[128];
    for (k = 0; k < argc; k++) if (!strcmp(argv[k], "--stats") && k + 1 < argc) stats = argv[k + 1];
    region = (unsigned char*)mmap(NULL, 4 * PAGE, PROT_READ | PROT_WRITE, MAP_PRIVATE | MAP_ANONYMOUS, -1, 0);
    data_lo = region + PAGE; data_hi = data_lo + 2 * PAGE;
    mprotect(region, PAGE, PROT_NONE); mprotect(data_hi, PAGE, PROT_NONE);
    vd_install_handlers();
    cJSON_Minify(NULL);
    while ((len = getline(&line, &cap, stdin)) > 0 || (len < 0 && errno == EINTR && !feof(stdin) && (clearerr(stdin), 1))) {
        char *copy; jv *v; const jv *tb, *ob; size_t n, i; unsigned char *buf; int valid; char why[256] = ""; int drift = 0;
        if (len <= 0) continue;
        if (line[0] != '"') { if (VD.passthrough) fputs(line, VD.passthrough); continue; }
        copy = strdup(line); jv_reset(); v = jv_parse_line(line);
        if (!v || v->t != JV_ARR || v->n < 4 || !jv_is_str(jv_at(v, 0), "M")) { if (VD.passthrough) fputs(copy, VD.passthrough); free(copy); continue; }
        VD.curline = copy; VD.cases++;
        tb = jv_at(v, 1); ob = jv_at(v, 2); valid = (int)jv_int(jv_at(v, 3)); n = tb->n; if (valid) valid_n++;
        memset(data_lo, 0xEE, 2 * PAGE);
        buf = data_hi - (n + 1);
        for (i = 0; i < n; i++) buf[i] = (unsigned char)jv_int(tb->e[i]);
        buf[n] = 0;
        if (VD_TRY()) {
            size_t rl;
            cJSON_Minify((char*)buf);
            VD_END();
            rl = strnlen((char*)buf, n + 1);
            for (i = 1; i <= 64; i++) if (buf[-(long)i] != 0xEE) { snprintf(why, sizeof(why), "wrote before the start of the buffer"); break; }
            if (!why[0] && rl > n) snprintf(why, sizeof(why), "result is not zero-terminated within the original buffer");
            if (!why[0]) {
                int same = (rl == ob->n);
                for (i = 0; same && i < rl; i++) if (buf[i] != (unsigned char)jv_int(ob->e[i])) same = 0;
                if (!same) { if (valid) snprintf(why, sizeof(why), "JSON text is not minified to its comment- and whitespace-free form: got \"%.*s\"", (int)rl, (char*)buf); else drift = 1; }
            }
            if (!why[0] && valid) {   /* minifying twice equals minifying once */
                static unsigned char once[8192]; memcpy(once, buf, rl + 1);
                if (VD_TRY()) { cJSON_Minify((char*)buf); VD_END(); if (strcmp((char*)once, (char*)buf)) snprintf(why, sizeof(why), "minifying twice differs from minifying once"); }
                else snprintf(why, sizeof(why), "memory fault when minifying the result again");
            }
        } else snprintf(why, sizeof(why), "%s (address %p, buffer %p..%p)", vd_fault_sig == SIGALRM ? "does not terminate" : "access beyond the terminator", (void*)vd_fault_addr, (void*)buf, (void*)(buf + n));
        if (why[0]) vd_violation("cJSON_Minify: %s", why); else VD.nontrivial++;
        if (drift) VD.drift++;
        if (VD.samplef && VD.samples < 6 && (VD.cases % 9973 == 11)) { fputs(copy, VD.samplef); VD.samples++; }
        vd_tick(); VD.curline = NULL; free(copy);
    }
    snprintf(extra, sizeof(extra), "\"json_with_comments_inputs\": %ld", valid_n);
    if (stats) vd_write_stats(stats, extra);
    return VD.violations ? 1 : 0;
}
