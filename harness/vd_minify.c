/* minify mode (C13): ["M", text, predicted result, input is JSON-with-comments] lines of MC_Minify.tla.
 * The buffer is placed so that its terminator is the last accessible byte; the area before it is a canary. */
#include "base.h"
#include "cJSON.h"
#define PAGE 4096
static unsigned char *region, *data_lo, *data_hi; static int full_table;

/* ["N", line, block, str]: bytes that are transparent in a line comment / block comment, copied in a string (from the Minify machine).
 * Every triple of such bytes is put into [1,//xyzt\n2], [1,<block comment>2] and ["axyzb" ]; the first two are JSON with comments whatever the bytes are (C13:
 * must become [1,2]); the third is one when the bytes form an RFC 8259 string body (otherwise a different result is drift). */
static long table_texts;
static int u8ok3(const unsigned char *s, int n)
{
    int i = 0;
    while (i < n) {
        unsigned c = s[i];
        if (c < 0x20) return 0;
        if (c < 0x80) { i++; continue; }
        if (c >= 0xC2 && c <= 0xDF) { if (i + 1 >= n || (s[i + 1] & 0xC0) != 0x80) return 0; i += 2; continue; }
        if (c >= 0xE0 && c <= 0xEF) { if (i + 2 >= n || (s[i + 1] & 0xC0) != 0x80 || (s[i + 2] & 0xC0) != 0x80) return 0;
            if (c == 0xE0 && s[i + 1] < 0xA0) return 0; if (c == 0xED && s[i + 1] >= 0xA0) return 0; i += 3; continue; }
        return 0;
    }
    return 1;
}
static int do_table(const jv *v, int full)
{
    unsigned char T[3][256]; int ctx; unsigned b1, b2, b3; char buf[32], exp[32];
    for (ctx = 0; ctx < 3; ctx++) { const jv *t = jv_at(v, 1 + (size_t)ctx); if (!t || t->n != 255) return -1; for (b1 = 1; b1 <= 255; b1++) T[ctx][b1] = (unsigned char)jv_int(t->e[b1 - 1]); }
    if (!VD_TRY()) { vd_violation("cJSON_Minify: memory fault or hang on a short comment / string body"); return 1; }
    for (ctx = 0; ctx < 3; ctx++)
        for (b1 = 1; b1 <= 255; b1++) {
            vd_tick();
            if (!T[ctx][b1]) continue;
            for (b2 = 1; b2 <= 255; b2++) {
                unsigned step3 = 1, start3 = 1;
                if (!T[ctx][b2]) continue;
                if (!full && !(b1 >= 0xC0 || b1 < 0x30 || b1 == 0x5C || b1 == 0x7F)) { step3 = 5; start3 = 1 + (b1 + b2) % 5; }
                for (b3 = start3; b3 <= 255; b3 += step3) {
                    size_t n; int must = 1;
                    if (!T[ctx][b3]) continue;
                    if (ctx == 1 && ((b1 == '*' && b2 == '/') || (b2 == '*' && b3 == '/'))) continue;      /* that would close the comment */
                    if (ctx == 0) { n = (size_t)sprintf(buf, "[1,//%c%c%ct\n2]", b1, b2, b3); strcpy(exp, "[1,2]"); }
                    else if (ctx == 1) { n = (size_t)sprintf(buf, "[1,/*%c%c%ct*/2]", b1, b2, b3); strcpy(exp, "[1,2]"); }
                    else { unsigned char body[3]; body[0] = (unsigned char)b1; body[1] = (unsigned char)b2; body[2] = (unsigned char)b3; must = u8ok3(body, 3);
                           n = (size_t)sprintf(buf, "[\"a%c%c%cb\" ]", b1, b2, b3); sprintf(exp, "[\"a%c%c%cb\"]", b1, b2, b3); }
                    buf[n + 1] = 0x55;
                    cJSON_Minify(buf); table_texts++;
                    if (strcmp(buf, exp) != 0 || buf[n + 1] != 0x55) {
                        if (must) { vd_violation("cJSON_Minify: a %s with the bytes %02x %02x %02x gives \"%.30s\" instead of \"%.30s\"", ctx == 0 ? "line comment" : ctx == 1 ? "block comment" : "string", b1, b2, b3, buf, exp); if (VD.violations > 20) goto done; }
                        else VD.drift++;
                    }
                }
            }
        }
done:
    VD_END();
    /* scale: a run of k adjacent comments between two tokens (all transparent by the table): [<k comments> 1, "a slash-star b star-slash // c" ] */
    { static const long KS[] = { 1000, 100000, 2000000 }; size_t ki;
      for (ki = 0; ki < 3; ki++) {
          static const char *C[] = { "/**/", " // x\n", "\t/* y */", "/*/ * /*/" }; const char *tail = " 1, \"a /* b */ // c\" ]", *want = "[1,\"a /* b */ // c\"]";
          long k = KS[ki], i; size_t cap = (size_t)k * 10 + 64, n = 0; char *t = (char*)malloc(cap);
          t[n++] = '['; for (i = 0; i < k; i++) { const char *c = C[i & 3]; size_t l = strlen(c); memcpy(t + n, c, l); n += l; } strcpy(t + n, tail);
          vd_tick();
          if (VD_TRY()) { cJSON_Minify(t); VD_END(); table_texts++;
              if (strcmp(t, want)) vd_violation("cJSON_Minify: %ld adjacent comments between two tokens: the result is \"%.40s\" instead of \"%s\"", k, t, want); }
          else vd_violation("cJSON_Minify: %ld adjacent comments between two tokens: crash (stack exhaustion?) or hang", k);
          free(t);
      } }
    return 1;
}

int vd_minify_main(int argc, char **argv);
int vd_minify_main(int argc, char **argv)
{
    char *line = NULL; size_t cap = 0; ssize_t len; const char *stats = NULL; int k; long valid_n = 0; char extra[128];
    for (k = 0; k < argc; k++) { if (!strcmp(argv[k], "--stats") && k + 1 < argc) stats = argv[k + 1]; if (!strcmp(argv[k], "--fulltable")) full_table = 1; }
    region = (unsigned char*)mmap(NULL, 4 * PAGE, PROT_READ | PROT_WRITE, MAP_PRIVATE | MAP_ANONYMOUS, -1, 0);
    data_lo = region + PAGE; data_hi = data_lo + 2 * PAGE;
    mprotect(region, PAGE, PROT_NONE); mprotect(data_hi, PAGE, PROT_NONE);
    vd_install_handlers();
    cJSON_Minify(NULL);
    while ((len = getline(&line, &cap, stdin)) > 0 || (len < 0 && errno == EINTR && !feof(stdin) && (clearerr(stdin), 1))) {
        char *copy; jv *v; const jv *tb, *ob; size_t n, i; unsigned char *buf; int valid; char why[256] = ""; int drift = 0;
        if (len <= 0) continue;
        if (line[0] != '"') { if (VD.passthrough) fputs(line, VD.passthrough); continue; }
        copy = strdup(line); jv_reset(); v = jv_parse_line(line);
        if (v && v->t == JV_ARR && v->n == 4 && jv_is_str(jv_at(v, 0), "N")) { VD.curline = copy; VD.cases++; if (do_table(v, full_table) < 0) { fprintf(stderr, "vdrv: cannot interpret minify table\n"); return 2; } VD.nontrivial++; VD.curline = NULL; free(copy); continue; }
        if (!v || v->t != JV_ARR || v->n < 4 || !jv_is_str(jv_at(v, 0), "M")) { if (VD.passthrough) fputs(copy, VD.passthrough); free(copy); continue; }
        VD.curline = copy; VD.cases++;
        tb = jv_at(v, 1); ob = jv_at(v, 2); valid = (int)jv_int(jv_at(v, 3)); n = tb->n; if (valid) valid_n++;
        memset(data_lo, 0xEE, 2 * PAGE);
        buf = data_hi - (n + 1);
        for (i = 0; i < n; i++) buf[i] = (unsigned char)jv_int(tb->e[i]);
        buf[n] = 0;
        if (VD_TRY()) {
            size_t rl;
            cJSON_Minify((char*)buf);
            VD_END();
            rl = strnlen((char*)buf, n + 1);
            for (i = 1; i <= 64; i++) if (buf[-(long)i] != 0xEE) { snprintf(why, sizeof(why), "wrote before the start of the buffer"); break; }
            if (!why[0] && rl > n) snprintf(why, sizeof(why), "result is not zero-terminated within the original buffer");
            if (!why[0]) {
                int same = (rl == ob->n);
                for (i = 0; same && i < rl; i++) if (buf[i] != (unsigned char)jv_int(ob->e[i])) same = 0;
                if (!same) { if (valid) snprintf(why, sizeof(why), "JSON text is not minified to its comment- and whitespace-free form: got \"%.*s\"", (int)rl, (char*)buf); else drift = 1; }
            }
            if (!why[0] && valid) {   /* minifying twice equals minifying once */
                static unsigned char once[8192]; memcpy(once, buf, rl + 1);
                if (VD_TRY()) { cJSON_Minify((char*)buf); VD_END(); if (strcmp((char*)once, (char*)buf)) snprintf(why, sizeof(why), "minifying twice differs from minifying once"); }
                else snprintf(why, sizeof(why), "memory fault when minifying the result again");
            }
        } else snprintf(why, sizeof(why), "%s (address %p, buffer %p..%p)", vd_fault_sig == SIGALRM ? "does not terminate" : "access beyond the terminator", (void*)vd_fault_addr, (void*)buf, (void*)(buf + n));
        if (why[0]) vd_violation("cJSON_Minify: %s", why); else VD.nontrivial++;
        if (drift) VD.drift++;
        if (VD.samplef && VD.samples < 6 && (VD.cases % 9973 == 11)) { fputs(copy, VD.samplef); VD.samples++; }
        vd_tick(); VD.curline = NULL; free(copy);
    }
    snprintf(extra, sizeof(extra), "\"json_with_comments_inputs\": %ld, \"comment_and_string_bodies_against_table\": %ld", valid_n, table_texts);
    if (stats) vd_write_stats(stats, extra);
    return VD.violations ? 1 : 0;
}
