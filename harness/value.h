/* Building cJSON trees from the specification's compact value form and comparing trees with it.
 *   ["n"] ["t"] ["f"] ["#", numId] ["s", bytes] ["r", bytes] ["a", [v...]] ["o", [[key, v]...]]        */
#ifndef VD_VALUE_H
#define VD_VALUE_H
#include "base.h"
#include "cJSON.h"
#include "numcat.h"

double num_of_id(long id);
cJSON *vb_build(const jv *v);                         /* well-formed tree in allocator blocks (library-owned) */
/* like vb_build_flagged, and nested containers are shared: the member is a reference node (cJSON_IsReference, as cJSON_AddItemReferenceToObject /
 * cJSON_CreateObjectReference make it) whose children belong to an owner kept in a pool.  Only for calls that do not edit the document.
 * An object is shared only when its first key is its smallest one, so that sorting through the reference leaves the owner's head in place. */
cJSON *vb_build_shared(const jv *v);
int vb_pool_count(void); cJSON *vb_pool_owner(int i); const jv *vb_pool_value(int i); void vb_pool_release(void);
cJSON *vb_build_flagged(const jv *v);                 /* same value as the construction API builds it with constant keys and string references: keys and string values live in caller memory */
/* 1 if tree t denotes exactly value v (shape, order, keys, bytes, number bits / integer view) */
int vb_equal(const jv *v, const cJSON *t, char *why, size_t wn, int depth);
/* structural well-formedness of a tree the library returned (sibling links, types); 1 if ok */
int vb_wellformed(const cJSON *t, char *why, size_t wn, int depth);
/* stable fingerprint of a tree (fields reachable through the public struct), to show arguments are not modified */
uint64_t vb_hash(const cJSON *t, int depth);
/* cJSON_bool parameters: "true" is any non-zero int; the abstract TRUE is concretised by a rotating non-zero value */
int vb_truthy(int b, unsigned long salt);
/* leftovers of an edit history: array elements that were once object members keep their old key (cJSON never clears it);
 * scheme 0: "k<i>", 1: "k<n-1-i>", 2: decimal digits of a wrong index, 3: "value" on every second element. The value denoted is unchanged. */
void vb_stale_keys(cJSON *t, int scheme);
void vb_stale_clear(cJSON *t);
/* payload fields a node's type does not use keep whatever an earlier life left in them: valueint of true is 1 from the parser and 0 from cJSON_CreateTrue,
 * a false that was true (cJSON_SetBoolValue) keeps 1, strings / null / containers carry arbitrary valueint / valuedouble.  scheme 0/1: two different fillings */
void vb_payload(cJSON *t, int scheme);
#endif
