/* Building cJSON trees from the specification's compact value form and comparing trees with it.
 *   ["n"] ["t"] ["f"] ["#", numId] ["s", bytes] ["r", bytes] ["a", [v...]] ["o", [[key, v]...]]        */
#ifndef VD_VALUE_H
#define VD_VALUE_H
#include "base.h"
#include "cJSON.h"
#include "numcat.h"

double num_of_id(long id);
cJSON *vb_build(const jv *v);                         /* well-formed tree in allocator blocks (library-owned) */
cJSON *vb_build_flagged(const jv *v);                 /* same value as the construction API builds it with constant keys and string references: keys and string values live in caller memory */
/* 1 if tree t denotes exactly value v (shape, order, keys, bytes, number bits / integer view) */
int vb_equal(const jv *v, const cJSON *t, char *why, size_t wn, int depth);
/* structural well-formedness of a tree the library returned (sibling links, types); 1 if ok */
int vb_wellformed(const cJSON *t, char *why, size_t wn, int depth);
/* stable fingerprint of a tree (fields reachable through the public struct), to show arguments are not modified */
uint64_t vb_hash(const cJSON *t, int depth);
#endif
