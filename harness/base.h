/* Shared infrastructure of the conformance driver: line reader for TLC's ToJson output, tracking
 * allocator with failure injection, caller-memory pool with integrity check, fault recovery, reporting.
 * Nothing here uses cJSON to read its own inputs. */
#ifndef VD_BASE_H
#define VD_BASE_H

#include <stdio.h>
#include <stdlib.h>
#include <string.h>
#include <stdint.h>
#include <stdarg.h>
#include <setjmp.h>
#include <signal.h>
#include <unistd.h>
#include <errno.h>
#include <sys/mman.h>
#include <sys/time.h>

/* ------------------------------------------------------------------ JSON values (TLC ToJson output) */
typedef enum { JV_NULL, JV_BOOL, JV_INT, JV_STR, JV_ARR, JV_OBJ } jv_type;
typedef struct jv {
    jv_type t;
    long i;              /* JV_INT / JV_BOOL */
    char *s;             /* JV_STR (also member name when inside an object) */
    size_t n;            /* JV_ARR / JV_OBJ: number of elements */
    struct jv **e;       /* elements (object: values; names in ->name) */
    char *name;          /* member name if this value is an object member */
} jv;

void jv_reset(void);                         /* release everything parsed so far (per line) */
jv *jv_parse_line(char *line);               /* NULL if the line is not a data line; line is modified */
jv *jv_get(const jv *o, const char *name);   /* object member or NULL */
static inline jv *jv_at(const jv *a, size_t k) { return (a && (a->t == JV_ARR) && k < a->n) ? a->e[k] : NULL; }
static inline int jv_is_str(const jv *v, const char *s) { return v && v->t == JV_STR && strcmp(v->s, s) == 0; }
static inline long jv_int(const jv *v) { return v ? v->i : 0; }
/* array of ints -> malloc-free C string in the line arena; [-1] -> NULL (and *isnull = 1) */
char *jv_bytes(const jv *v, int *isnull);
void jv_print(FILE *f, const jv *v);

/* ------------------------------------------------------------------ tracking allocator */
typedef struct blk {
    uint64_t magic;
    size_t size;
    uint32_t state;      /* 1 live, 2 freed */
    uint32_t tag;        /* claim counter used by the census */
    uint64_t seq;        /* allocation sequence number within the case */
    uint32_t origin;     /* who handed the block out: 'U' user hook, 'L' C library entry point, 0 driver */
    struct blk *nextall; /* all blocks of the case */
    void *payload;
} blk;

#define BLK_MAGIC 0xC150C150B10CB10CULL
extern int al_reuse;           /* serve requests from the most recently released block of the same size (LIFO allocator) */
extern long al_live;           /* live blocks */
extern long al_allocs;         /* requests in the current call window */
extern long al_fail_at;        /* fail the n-th request of the window (0 = never) */
extern long al_bad_free;       /* frees of pointers that are not live blocks of this allocator */
extern long al_free_null;      /* free(NULL) through the hook */
extern long al_total_allocs, al_total_frees;
extern int  al_in_call;        /* set while a library call is in progress */
extern blk *al_all;
extern long al_overflow;       /* blocks written beyond their end */
int al_check_redzones(void);   /* 1 if no live block was written beyond its end */
extern long al_libc_malloc_calls, al_libc_free_calls, al_libc_realloc_calls;   /* direct libc allocator calls by library code */

void *al_malloc(size_t n);     /* installed as cJSON hook: counts, may fail */
void  al_free(void *p);
void *al_raw(size_t n);        /* driver-side allocation of a block that the library will own (no counting/failing) */
unsigned long vd_salt(void);   /* content hash of the current case */
void  al_case_begin(void);     /* forget all blocks of the previous case */
blk  *al_find(const void *p);  /* block whose payload starts at p, or NULL */
int   al_is_live(const void *p);
void  al_window(long fail_at); /* start a call window: al_allocs = 0, al_fail_at = fail_at */

/* ------------------------------------------------------------------ caller memory (borrowed by the library) */
char *cm_string(const char *s);        /* copy into caller memory surrounded by canaries */
void  cm_case_begin(void);
int   cm_intact(char *why, size_t n);  /* 1 if every caller string and canary is unchanged */
int   cm_owns(const void *p);          /* p points into a caller string */

/* ------------------------------------------------------------------ fault recovery */
extern sigjmp_buf vd_jmp;
extern volatile sig_atomic_t vd_armed;
extern volatile int vd_fault_sig;
extern volatile void *vd_fault_addr;
void vd_install_handlers(void);
void vd_tick(void);                    /* a case finished (hang detection) */
#define VD_TRY()  (vd_armed = 1, sigsetjmp(vd_jmp, 0) == 0)
#define VD_END()  (vd_armed = 0)

/* ------------------------------------------------------------------ reporting */
typedef struct {
    const char *prop;        /* property id for VIOLATION lines */
    const char *mode;        /* driver mode (recorded in replay files) */
    const char *argsline;    /* driver arguments (recorded in replay files) */
    const char *outdir;      /* where replay files go */
    long cases, nontrivial, drift, violations, known;
    long by_kind[64];
    FILE *passthrough;       /* non-data lines of TLC go here */
    long max_report;
    char *curline;           /* raw text of the case being executed (for replay files) */
    int samples;             /* number of sample cases echoed to the stats file */
    FILE *samplef;
} vd_ctx;
extern vd_ctx VD;

void vd_violation(const char *fmt, ...);     /* prints VIOLATION line, writes replay file */
void vd_known(const char *sig, const char *fmt, ...);
int  vd_known_match(const char *sig);        /* is signature listed as finding: in KNOWN_FINDINGS.txt */
void vd_load_known(const char *path);
void vd_write_stats(const char *path, const char *extra_json);

#endif
