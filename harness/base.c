#include "base.h"
#include <ctype.h>
#include <fcntl.h>

/* ================================================================== line arena + JSON reader */
static char *ja_buf; static size_t ja_cap, ja_off;
static void *ja_alloc(size_t n)
{
    void *p;
    n = (n + 15u) & ~(size_t)15u;
    if (ja_off + n > ja_cap) {
        /* lines are bounded; grow by chaining a fresh chunk (old chunk leaks until reset, rare) */
        size_t nc = ja_cap ? ja_cap * 2 : (1u << 20);
        while (nc < n + 64) nc *= 2;
        ja_buf = (char*)malloc(nc); ja_cap = nc; ja_off = 0;
        if (!ja_buf) { fprintf(stderr, "vdrv: out of memory\n"); _exit(2); }
    }
    p = ja_buf + ja_off; ja_off += n;
    return p;
}
void jv_reset(void) { ja_off = 0; }

static jv *jv_new(jv_type t) { jv *v = (jv*)ja_alloc(sizeof(jv)); memset(v, 0, sizeof(*v)); v->t = t; return v; }

typedef struct { char *p; int bad; } jp;
static void jws(jp *s) { while (*s->p == ' ' || *s->p == '\t' || *s->p == '\n' || *s->p == '\r') s->p++; }
static jv *jval(jp *s);
static char *jstr(jp *s)
{
    /* s->p at opening quote (already unescaped outer layer) */
    char *out, *o;
    char *q = s->p + 1;
    size_t len = 0;
    while (q[len] && q[len] != '"') { if (q[len] == '\\' && q[len+1]) len++; len++; }
    out = o = (char*)ja_alloc(len + 1);
    while (*q && *q != '"') {
        if (*q == '\\' && q[1]) {
            q++;
            switch (*q) {
                case 'n': *o++ = '\n'; break; case 't': *o++ = '\t'; break; case 'r': *o++ = '\r'; break;
                case 'b': *o++ = '\b'; break; case 'f': *o++ = '\f'; break;
                default: *o++ = *q; break;
            }
            q++;
        } else *o++ = *q++;
    }
    *o = 0;
    if (*q != '"') s->bad = 1; else q++;
    s->p = q;
    return out;
}
static jv *jval(jp *s)
{
    jv *v;
    jws(s);
    if (*s->p == '[' || *s->p == '{') {
        int obj = (*s->p == '{');
        char close = obj ? '}' : ']';
        size_t cap = 8;
        jv **tmp = (jv**)malloc(cap * sizeof(jv*));
        v = jv_new(obj ? JV_OBJ : JV_ARR);
        s->p++; jws(s);
        if (*s->p == close) { s->p++; free(tmp); return v; }
        for (;;) {
            char *name = NULL; jv *e;
            jws(s);
            if (obj) {
                if (*s->p != '"') { s->bad = 1; break; }
                name = jstr(s); jws(s);
                if (*s->p != ':') { s->bad = 1; break; }
                s->p++;
            }
            e = jval(s);
            if (s->bad || !e) break;
            e->name = name;
            if (v->n == cap) { cap *= 2; tmp = (jv**)realloc(tmp, cap * sizeof(jv*)); }
            tmp[v->n++] = e;
            jws(s);
            if (*s->p == ',') { s->p++; continue; }
            if (*s->p == close) { s->p++; break; }
            s->bad = 1; break;
        }
        v->e = (jv**)ja_alloc((v->n ? v->n : 1) * sizeof(jv*));
        memcpy(v->e, tmp, v->n * sizeof(jv*));
        free(tmp);
        return v;
    }
    if (*s->p == '"') { v = jv_new(JV_STR); v->s = jstr(s); return v; }
    if (*s->p == '-' || isdigit((unsigned char)*s->p)) {
        char *end; v = jv_new(JV_INT); v->i = strtol(s->p, &end, 10); s->p = end; return v;
    }
    if (strncmp(s->p, "true", 4) == 0) { v = jv_new(JV_BOOL); v->i = 1; s->p += 4; return v; }
    if (strncmp(s->p, "false", 5) == 0) { v = jv_new(JV_BOOL); v->i = 0; s->p += 5; return v; }
    if (strncmp(s->p, "null", 4) == 0) { v = jv_new(JV_NULL); s->p += 4; return v; }
    s->bad = 1;
    return NULL;
}

/* TLC prints PrintT(ToJson(x)) as a TLA+ string: "...." with \" and \\ escapes. */
jv *jv_parse_line(char *line)
{
    size_t len = strlen(line);
    char *r, *w; jp s; jv *v;
    while (len && (line[len-1] == '\n' || line[len-1] == '\r')) line[--len] = 0;
    if (len < 4 || line[0] != '"' || (line[1] != '[' && line[1] != '{') || line[len-1] != '"') return NULL;
    line[len-1] = 0;
    /* undo the outer TLA+ string escaping in place */
    for (r = w = line + 1; *r; ) {
        if (*r == '\\' && (r[1] == '"' || r[1] == '\\')) { *w++ = r[1]; r += 2; }
        else *w++ = *r++;
    }
    *w = 0;
    s.p = line + 1; s.bad = 0;
    v = jval(&s);
    if (s.bad) return NULL;
    return v;
}
jv *jv_get(const jv *o, const char *name)
{
    size_t k;
    if (!o || o->t != JV_OBJ) return NULL;
    for (k = 0; k < o->n; k++) if (o->e[k]->name && strcmp(o->e[k]->name, name) == 0) return o->e[k];
    return NULL;
}
char *jv_bytes(const jv *v, int *isnull)
{
    size_t k; char *out;
    if (isnull) *isnull = 0;
    if (!v || v->t != JV_ARR) { if (isnull) *isnull = 1; return NULL; }
    if (v->n == 1 && v->e[0]->t == JV_INT && v->e[0]->i == -1) { if (isnull) *isnull = 1; return NULL; }
    out = (char*)ja_alloc(v->n + 1);
    for (k = 0; k < v->n; k++) out[k] = (char)jv_int(v->e[k]);
    out[v->n] = 0;
    return out;
}
void jv_print(FILE *f, const jv *v)
{
    size_t k;
    if (!v) { fputs("null", f); return; }
    switch (v->t) {
        case JV_NULL: fputs("null", f); break;
        case JV_BOOL: fputs(v->i ? "true" : "false", f); break;
        case JV_INT: fprintf(f, "%ld", v->i); break;
        case JV_STR: { const char *p; fputc('"', f); for (p = v->s; *p; p++) { if (*p == '"' || *p == '\\') fputc('\\', f); if ((unsigned char)*p < 32) fprintf(f, "\\u%04x", *p); else fputc(*p, f); } fputc('"', f); break; }
        case JV_ARR: fputc('[', f); for (k = 0; k < v->n; k++) { if (k) fputc(',', f); jv_print(f, v->e[k]); } fputc(']', f); break;
        case JV_OBJ: fputc('{', f); for (k = 0; k < v->n; k++) { if (k) fputc(',', f); fprintf(f, "\"%s\":", v->e[k]->name ? v->e[k]->name : ""); jv_print(f, v->e[k]); } fputc('}', f); break;
    }
}

/* ================================================================== tracking allocator */
long al_live, al_allocs, al_fail_at, al_bad_free, al_free_null, al_total_allocs, al_total_frees;
long al_overflow;              /* blocks whose trailing red zone was overwritten */
#define RZ 48                  /* bytes of red zone behind every block (plain flavour; ASan has its own) */
int al_in_call;
blk *al_all;
static uint64_t al_seq;

#ifdef VD_ASAN
/* side records: the payload is a plain malloc block so that ASan sees every access */
#define HDR 0
#else
#define HDR sizeof(blk)
#endif

/* pointer -> record table (open addressing), cleared per case */
typedef struct { const void *p; blk *b; } slot;
static slot *tab; static size_t tabcap, tabused;
static size_t *usedidx; static size_t usedn, usedcap;

static size_t hashp(const void *p) { uint64_t x = (uint64_t)(uintptr_t)p; x ^= x >> 33; x *= 0xff51afd7ed558ccdULL; x ^= x >> 29; return (size_t)x; }
static void tab_grow(void)
{
    size_t ncap = tabcap ? tabcap * 2 : 4096, k;
    slot *nt = (slot*)calloc(ncap, sizeof(slot));
    size_t *nu = (size_t*)malloc(ncap * sizeof(size_t)); size_t nn = 0;
    for (k = 0; k < usedn; k++) {
        slot *o = &tab[usedidx[k]]; size_t h;
        if (!o->p) continue;
        h = hashp(o->p) & (ncap - 1);
        while (nt[h].p) h = (h + 1) & (ncap - 1);
        nt[h] = *o; nu[nn++] = h;
    }
    free(tab); free(usedidx);
    tab = nt; tabcap = ncap; usedidx = nu; usedn = nn; usedcap = ncap; tabused = nn;
}
static void tab_put(const void *p, blk *b)
{
    size_t h;
    if ((tabused + 1) * 2 > tabcap) tab_grow();
    h = hashp(p) & (tabcap - 1);
    while (tab[h].p && tab[h].p != p) h = (h + 1) & (tabcap - 1);
    if (!tab[h].p) { usedidx[usedn++] = h; tabused++; }
    tab[h].p = p; tab[h].b = b;
}
blk *al_find(const void *p)
{
    size_t h;
    if (!tabcap || !p) return NULL;
    h = hashp(p) & (tabcap - 1);
    while (tab[h].p) { if (tab[h].p == p) return tab[h].b; h = (h + 1) & (tabcap - 1); }
    return NULL;
}
int al_is_live(const void *p) { blk *b = al_find(p); return b && b->state == 1; }

/* reuse mode: a request is served from the most recently released block of exactly that size, as a LIFO allocator (glibc's tcache) does - code that
 * compares a pointer with one it has released then meets the coincidence it must not rely on.  Off by default (released memory stays poisoned). */
int al_reuse;
static blk *al_lifo[64]; static int al_lifo_n;
static void *al_new(size_t n)
{
    blk *b;
    void *payload;
#ifndef VD_ASAN
    if (al_reuse) {
        int k;
        for (k = al_lifo_n - 1; k >= 0 && k >= al_lifo_n - 4; k--) if (al_lifo[k] && al_lifo[k]->state == 2 && al_lifo[k]->size == n) {
            b = al_lifo[k]; al_lifo[k] = NULL; while (al_lifo_n > 0 && !al_lifo[al_lifo_n - 1]) al_lifo_n--;
            b->state = 1; b->tag = 0; b->seq = ++al_seq; b->origin = 0;
            memset(b->payload, 0xAB, n); memset((char*)b->payload + n, 0xFD, RZ);
            al_live++;
            return b->payload;
        }
    }
#endif
#ifdef VD_ASAN
    b = (blk*)malloc(sizeof(blk));
    payload = malloc(n ? n : 1);
#else
    b = (blk*)malloc(sizeof(blk) + (n ? n : 1) + RZ);
    payload = (void*)(b + 1);
    if (b) memset((char*)payload + n, 0xFD, RZ);
#endif
    if (!b || !payload) { fprintf(stderr, "vdrv: out of memory\n"); _exit(2); }
    b->magic = BLK_MAGIC; b->size = n; b->state = 1; b->tag = 0; b->seq = ++al_seq; b->origin = 0;
    b->nextall = al_all; al_all = b; b->payload = payload;
    memset(payload, 0xAB, n);            /* uninitialised memory is recognisable */
    tab_put(payload, b);
    al_live++;
    return payload;
}
void *al_raw(size_t n) { return al_new(n); }
void *al_malloc(size_t n)
{
    al_allocs++; al_total_allocs++;
    if (al_fail_at && al_allocs == al_fail_at) return NULL;
    return al_new(n);
}
void al_free(void *p)
{
    blk *b;
    if (!p) { al_free_null++; return; }
    b = al_find(p);
    if (!b || b->state != 1) { al_bad_free++; return; }   /* foreign or double free: recorded, not executed */
    b->state = 2; al_live--; al_total_frees++;
#ifndef VD_ASAN
    { size_t k; for (k = 0; k < RZ; k++) if (((unsigned char*)p)[b->size + k] != 0xFD) { al_overflow++; break; } }
#endif
#ifdef VD_ASAN
    free(p);                                              /* ASan now traps any later access */
#else
    memset(p, 0xDD, b->size);                             /* stale pointers read as garbage */
    if (al_reuse) { if (al_lifo_n == 64) { memmove(al_lifo, al_lifo + 32, 32 * sizeof(al_lifo[0])); al_lifo_n = 32; } al_lifo[al_lifo_n++] = b; }
#endif
}
/* The library objects' undefined malloc/free/realloc are renamed to these by objcopy (tools/build.sh), so every
 * DIRECT use of the C allocator by library code is seen here (default-hook configuration, C08 C14). */
long al_libc_malloc_calls, al_libc_free_calls, al_libc_realloc_calls;
void *vd_libc_malloc(size_t n);
void vd_libc_free(void *p);
void *vd_libc_realloc(void *p, size_t n);
void *vd_libc_malloc(size_t n) { void *p; al_libc_malloc_calls++; p = al_malloc(n); if (p) al_find(p)->origin = 'L'; return p; }
void vd_libc_free(void *p) { al_libc_free_calls++; al_free(p); }
void *vd_libc_realloc(void *p, size_t n)
{
    blk *b; void *q;
    al_libc_realloc_calls++;
    if (!p) return al_malloc(n);
    b = al_find(p);
    if (!b || b->state != 1) { al_bad_free++; return NULL; }
    al_allocs++; al_total_allocs++;
    if (al_fail_at && al_allocs == al_fail_at) return NULL;      /* a refused realloc leaves the old block alone */
    q = al_new(n); al_find(q)->origin = 'L';
    memcpy(q, p, b->size < n ? b->size : n);
    al_free(p);
    return q;
}

int al_check_redzones(void)
{
#ifndef VD_ASAN
    blk *b; size_t k;
    for (b = al_all; b; b = b->nextall) if (b->state == 1) for (k = 0; k < RZ; k++) if (((unsigned char*)b->payload)[b->size + k] != 0xFD) { al_overflow++; break; }
#endif
    return al_overflow == 0;
}
void al_case_begin(void)
{
    blk *b = al_all, *nx; size_t k;
    while (b) {
        nx = b->nextall;
#ifdef VD_ASAN
        /* payload of live blocks is released here; freed ones are already gone */
        if (b->state == 1) free(b->payload);
#endif
        free(b);
        b = nx;
    }
    al_all = NULL;
    for (k = 0; k < usedn; k++) { tab[usedidx[k]].p = NULL; tab[usedidx[k]].b = NULL; }
    usedn = 0; tabused = 0;
    al_live = 0; al_allocs = 0; al_fail_at = 0; al_bad_free = 0; al_free_null = 0; al_seq = 0; al_overflow = 0; al_lifo_n = 0;
}
void al_window(long fail_at) { al_allocs = 0; al_fail_at = fail_at; }

/* ================================================================== caller memory */
#define CM_MAX 256
#define CM_CANARY 8
static struct { char *base; size_t len; uint64_t sum; } cm[CM_MAX];
static int cmn;
static uint64_t cm_sum(const char *p, size_t n) { uint64_t h = 1469598103934665603ULL; size_t k; for (k = 0; k < n; k++) { h ^= (unsigned char)p[k]; h *= 1099511628211ULL; } return h; }
char *cm_string(const char *s)
{
    size_t len = strlen(s) + 1;
    char *base;
    if (cmn == CM_MAX) { fprintf(stderr, "vdrv: caller memory pool exhausted\n"); _exit(2); }
    base = (char*)malloc(len + 2 * CM_CANARY);
    memset(base, 0x5A, CM_CANARY); memcpy(base + CM_CANARY, s, len); memset(base + CM_CANARY + len, 0xA5, CM_CANARY);
    cm[cmn].base = base; cm[cmn].len = len + 2 * CM_CANARY; cm[cmn].sum = cm_sum(base, cm[cmn].len);
    cmn++;
    return base + CM_CANARY;
}
void cm_case_begin(void) { int k; for (k = 0; k < cmn; k++) free(cm[k].base); cmn = 0; }
int cm_owns(const void *p)
{
    int k; const char *q = (const char*)p;
    for (k = 0; k < cmn; k++) if (q >= cm[k].base + CM_CANARY && q < cm[k].base + cm[k].len - CM_CANARY) return 1;
    return 0;
}
int cm_intact(char *why, size_t n)
{
    int k;
    for (k = 0; k < cmn; k++) if (cm_sum(cm[k].base, cm[k].len) != cm[k].sum) {
        snprintf(why, n, "caller-owned (borrowed) string #%d was modified", k);
        return 0;
    }
    return 1;
}

/* ================================================================== fault recovery */
sigjmp_buf vd_jmp;
volatile sig_atomic_t vd_armed;
volatile int vd_fault_sig;
volatile void *vd_fault_addr;
static volatile long vd_progress, vd_progress_seen;
static void last_resort(int sig)
{
    /* the driver itself is dying (typically the C library detected heap corruption caused by the call in flight):
     * report the case being executed as a violation with async-signal-safe calls only, then leave */
    char path[512], msg[900]; int fd, n;
    snprintf(path, sizeof(path), "%s/%s-fatal.case", VD.outdir ? VD.outdir : ".", VD.prop);
    fd = open(path, O_WRONLY | O_CREAT | O_TRUNC, 0644);
    if (fd >= 0) { if (VD.curline) { ssize_t w = write(fd, VD.curline, strlen(VD.curline)); (void)w; } close(fd); }
    n = snprintf(msg, sizeof(msg), "VIOLATION property=%s replay=%s :: the process was killed by signal %d while the library executed this case (heap corruption or stack exhaustion)\n", VD.prop, path, sig);
    if (VD.curline) { ssize_t w = write(1, msg, (size_t)n); (void)w; }
    _exit(VD.curline ? 1 : 2);
}
static void on_fault(int sig, siginfo_t *si, void *ctx)
{
    (void)ctx;
    if (!vd_armed || sig == SIGABRT) { last_resort(sig); return; }
    vd_fault_sig = sig; vd_fault_addr = si ? si->si_addr : NULL;
    vd_armed = 0;
    siglongjmp(vd_jmp, 1);
}
static void on_alarm(int sig)
{
    (void)sig;
    if (vd_armed && vd_progress == vd_progress_seen) {   /* no case finished during a whole period: hang */
        vd_fault_sig = SIGALRM; vd_armed = 0;
        siglongjmp(vd_jmp, 1);
    }
    vd_progress_seen = vd_progress;
}
void vd_install_handlers(void)
{
    struct sigaction sa; struct itimerval it;
    static char altstack[1 << 16]; stack_t ss;
    ss.ss_sp = altstack; ss.ss_size = sizeof(altstack); ss.ss_flags = 0; sigaltstack(&ss, NULL);
    memset(&sa, 0, sizeof(sa));
    sa.sa_sigaction = on_fault; sa.sa_flags = SA_SIGINFO | SA_NODEFER | SA_ONSTACK;
    sigaction(SIGSEGV, &sa, NULL); sigaction(SIGBUS, &sa, NULL); sigaction(SIGFPE, &sa, NULL); sigaction(SIGILL, &sa, NULL);
    sigaction(SIGABRT, &sa, NULL);
    memset(&sa, 0, sizeof(sa)); sa.sa_handler = on_alarm; sa.sa_flags = SA_NODEFER | SA_ONSTACK | SA_RESTART;
    /* the period is measured in CPU time of this process (user + system), not wall-clock time: a machine busy with other work cannot make a
     * case look like a hang */
    sigaction(SIGPROF, &sa, NULL);
    it.it_interval.tv_sec = 5; it.it_interval.tv_usec = 0; it.it_value = it.it_interval;
    setitimer(ITIMER_PROF, &it, NULL);
}
void vd_tick(void) { vd_progress++; }
/* a number that depends on the content of the case in hand only (not on the order in which TLC's workers emitted the cases): selects the
 * concretisation variant (which non-zero int stands for TRUE, which naming scheme for left-over keys, ...) reproducibly */
unsigned long vd_salt(void)
{
    static const char *seen; static unsigned long h; const char *p;
    if (VD.curline == seen && seen) return h;
    seen = VD.curline; h = 1469598103UL;
    for (p = VD.curline ? VD.curline : ""; *p; p++) { h ^= (unsigned char)*p; h *= 16777619UL; h &= 0xffffffffUL; }
    return h;
}

/* ================================================================== reporting */
vd_ctx VD;
static char known_sigs[64][128]; static int known_n; static int known_hit[64];

void vd_load_known(const char *path)
{
    FILE *f = fopen(path, "r"); char line[1024];
    if (!f) return;
    while (fgets(line, sizeof(line), f)) {
        char *p, *q;
        if (strncmp(line, "finding:", 8) != 0) continue;
        p = strstr(line, "sig="); if (!p) continue;
        p += 4; q = p; while (*q && !isspace((unsigned char)*q)) q++;
        if (known_n < 64) { size_t l = (size_t)(q - p); if (l > 127) l = 127; memcpy(known_sigs[known_n], p, l); known_sigs[known_n][l] = 0; known_n++; }
    }
    fclose(f);
}
int vd_known_match(const char *sig)
{
    int k;
    for (k = 0; k < known_n; k++) if (strcmp(known_sigs[k], sig) == 0) return k + 1;
    return 0;
}
void vd_known(const char *sig, const char *fmt, ...)
{
    int k = vd_known_match(sig); va_list ap;
    VD.known++;
    if (k && known_hit[k-1]++) return;        /* one line per listed finding */
    printf("KNOWN-FINDING: property=%s sig=%s ", VD.prop, sig);
    va_start(ap, fmt); vprintf(fmt, ap); va_end(ap);
    printf("\n"); fflush(stdout);
}
void vd_violation(const char *fmt, ...)
{
    va_list ap; char path[512]; FILE *f;
    VD.violations++;
    if (VD.violations > (VD.max_report ? VD.max_report : 20)) return;
    snprintf(path, sizeof(path), "%s/%s-%ld.case", VD.outdir ? VD.outdir : ".", VD.prop, VD.violations);
    f = fopen(path, "w");
    if (f) {
        fprintf(f, "# property %s\n# mode %s\n# ", VD.prop, VD.mode ? VD.mode : "?");
        va_start(ap, fmt); vfprintf(f, fmt, ap); va_end(ap);
        fprintf(f, "\n%s\n", VD.curline ? VD.curline : "");
        fclose(f);
    }
    printf("VIOLATION property=%s replay=%s :: ", VD.prop, path);
    va_start(ap, fmt); vprintf(fmt, ap); va_end(ap);
    printf("\n"); fflush(stdout);
}
void vd_write_stats(const char *path, const char *extra_json)
{
    FILE *f = fopen(path, "w");
    if (!f) return;
    fprintf(f, "{\"cases\": %ld, \"nontrivial\": %ld, \"drift\": %ld, \"violations\": %ld, \"known\": %ld, \"allocs\": %ld, \"frees\": %ld%s%s}\n",
            VD.cases, VD.nontrivial, VD.drift, VD.violations, VD.known, al_total_allocs, al_total_frees,
            extra_json && *extra_json ? ", " : "", extra_json ? extra_json : "");
    fclose(f);
}
