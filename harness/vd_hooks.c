/* hooks mode (C14): replays the transitions of Hooks.tla.
 * line: ["H", kind, arg, eff_pre, held_pre, eff_post, events]
 * The user's allocation functions and the C library entry points (redirected symbols of the library objects) are
 * told apart; every request the library makes during the call is attributed to one of them. */
#include "base.h"
#include "cJSON.h"
#include "cJSON_Utils.h"

static long ev_um, ev_uf, ev_uf_null, ev_bad_origin;
static void *user_malloc(size_t n) { void *p; ev_um++; p = al_malloc(n); if (p) al_find(p)->origin = 'U'; return p; }
static void user_free(void *p)
{
    blk *b;
    if (!p) { ev_uf_null++; return; }
    ev_uf++; b = al_find(p);
    if (b && b->state == 1 && b->origin != 'U') ev_bad_origin++;     /* a pointer the user's malloc never returned */
    al_free(p);
}
static const char *LONGTEXT;     /* prints to more than 256 bytes, so the print buffer grows and is trimmed */

static void install(const jv *eff)
{
    cJSON_Hooks h; int um = jv_is_str(jv_get(eff, "alloc"), "user"), uf = jv_is_str(jv_get(eff, "dealloc"), "user");
    if (!um && !uf) { cJSON_InitHooks(NULL); return; }
    h.malloc_fn = um ? user_malloc : NULL; h.free_fn = uf ? user_free : NULL;
    cJSON_InitHooks(&h);
}
static void reset_counts(void) { ev_um = ev_uf = ev_uf_null = ev_bad_origin = 0; al_libc_malloc_calls = al_libc_free_calls = al_libc_realloc_calls = 0; }

static void transient_tree(void)
{
    cJSON *t = cJSON_Parse("{\"a\":[1,2,{\"b\":\"text\"}],\"c\":\"x\",\"d\":null}"), *u, *d, *p, *m; char *s;
    cJSON *o = cJSON_CreateObject(); const char *strs[2] = { "p", "q" };
    cJSON_AddItemToObject(o, "k", cJSON_CreateString("v")); cJSON_AddNumberToObject(o, "n", 1.5); cJSON_AddItemToObjectCS(o, "cs", cJSON_CreateStringArray(strs, 2));
    cJSON_SetValuestring(cJSON_GetObjectItem(o, "k"), "a much longer value than before");
    cJSON_ReplaceItemInObject(o, "n", cJSON_CreateRaw("[1]"));
    cJSON_AddItemReferenceToObject(o, "ref", t);
    d = cJSON_Duplicate(o, 1);
    u = cJSON_Parse("{\"a\":[1,3],\"e\":true}");
    p = cJSONUtils_GeneratePatchesCaseSensitive(t, u);
    cJSONUtils_ApplyPatchesCaseSensitive(t, p);
    m = cJSONUtils_GenerateMergePatchCaseSensitive(d, u);
    d = cJSONUtils_MergePatchCaseSensitive(d, m);
    s = cJSONUtils_FindPointerFromObjectTo(u, cJSON_GetArrayItem(cJSON_GetObjectItem(u, "a"), 1)); cJSON_free(s);
    cJSONUtils_SortObject(u);
    { void *x = cJSON_malloc(10); cJSON_free(x); }
    cJSON_Delete(p); cJSON_Delete(m); cJSON_Delete(d); cJSON_Delete(o); cJSON_Delete(t); cJSON_Delete(u);
}
static void transient_print(void)
{
    cJSON *t = cJSON_Parse(LONGTEXT); char *a, *b, *c; char pre[64];
    a = cJSON_Print(t); b = cJSON_PrintUnformatted(t); c = cJSON_PrintBuffered(t, 3, 1);
    cJSON_PrintPreallocated(t, pre, (int)sizeof(pre), 0);
    cJSON_free(a); cJSON_free(b); cJSON_free(c); cJSON_Delete(t);
}

int vd_hooks_main(int argc, char **argv);
int vd_hooks_main(int argc, char **argv)
{
    char *line = NULL; size_t cap = 0; ssize_t len; const char *stats = NULL; int k; static char lt[1200];
    for (k = 0; k < argc; k++) if (!strcmp(argv[k], "--stats") && k + 1 < argc) stats = argv[k + 1];
    { size_t n = 0; n += (size_t)sprintf(lt + n, "["); for (k = 0; k < 60; k++) n += (size_t)sprintf(lt + n, "%s\"item %d\"", k ? "," : "", k); sprintf(lt + n, "]"); LONGTEXT = lt; }
    vd_install_handlers();
    while ((len = getline(&line, &cap, stdin)) > 0 || (len < 0 && errno == EINTR && !feof(stdin) && (clearerr(stdin), 1))) {
        char *copy; jv *v; const char *kind; const jv *effpre, *heldpre, *effpost, *events; void *heldp[8]; int heldtext[8]; size_t nh = 0, i; char why[300] = "";
        int x_alloc_user = 0, x_alloc_libc = 0, x_free_user = 0, x_free_libc = 0, x_realloc = 0;
        if (len <= 0) continue;
        if (line[0] != '"') { if (VD.passthrough) fputs(line, VD.passthrough); continue; }
        copy = strdup(line); jv_reset(); v = jv_parse_line(line);
        if (!v || v->t != JV_ARR || v->n < 7 || !jv_is_str(jv_at(v, 0), "H")) { if (VD.passthrough) fputs(copy, VD.passthrough); free(copy); continue; }
        VD.curline = copy; VD.cases++;
        kind = jv_at(v, 1)->s; effpre = jv_at(v, 3); heldpre = jv_at(v, 4); effpost = jv_at(v, 5); events = jv_at(v, 6);
        al_case_begin();
        for (i = 0; i < events->n; i++) {
            const jv *e = events->e[i]; int user = jv_is_str(jv_get(e, "by"), "user");
            if (jv_is_str(jv_get(e, "ev"), "alloc")) { if (user) x_alloc_user = 1; else x_alloc_libc = 1; }
            else if (jv_is_str(jv_get(e, "ev"), "free")) { if (user) x_free_user = 1; else x_free_libc = 1; }
            else x_realloc = 1;
        }
        if (VD_TRY()) {
            install(effpre);
            for (i = 0; i < heldpre->n && nh < 8; i++) {
                if (jv_is_str(jv_get(heldpre->e[i], "what"), "tree")) { heldp[nh] = cJSON_Parse("[\"held\",{\"k\":1}]"); heldtext[nh] = 0; }
                else { cJSON *t = cJSON_Parse(LONGTEXT); heldp[nh] = cJSON_Print(t); cJSON_Delete(t); heldtext[nh] = 1; }
                nh++;
            }
            reset_counts();
            al_in_call = 1;
            if (!strcmp(kind, "InitHooks")) {
                const jv *a = jv_at(v, 2); cJSON_Hooks h;
                if (jv_int(jv_get(a, "null"))) cJSON_InitHooks(NULL);
                else { h.malloc_fn = jv_int(jv_get(a, "m")) ? user_malloc : NULL; h.free_fn = jv_int(jv_get(a, "f")) ? user_free : NULL; cJSON_InitHooks(&h); }
                /* what is now in force shows in the next calls: probe with both call classes under the post configuration */
                reset_counts(); transient_tree(); transient_print();
                x_alloc_user = jv_is_str(jv_get(effpost, "alloc"), "user"); x_alloc_libc = !x_alloc_user;
                x_free_user = jv_is_str(jv_get(effpost, "dealloc"), "user"); x_free_libc = !x_free_user;
                x_realloc = !jv_is_str(jv_get(effpost, "realloc"), "none");
            } else if (!strcmp(kind, "transient_tree")) transient_tree();
            else if (!strcmp(kind, "transient_print")) transient_print();
            else if (!strcmp(kind, "hold_tree")) { heldp[nh] = cJSON_Parse("[\"held\",{\"k\":1}]"); heldtext[nh++] = 0; }
            else if (!strcmp(kind, "hold_text")) { cJSON *t = cJSON_Parse(LONGTEXT); heldp[nh] = cJSON_Print(t); cJSON_Delete(t); heldtext[nh++] = 1; }
            else if (!strcmp(kind, "release")) { size_t j = (size_t)jv_int(jv_at(v, 2)) - 1; if (heldtext[j]) cJSON_free(heldp[j]); else cJSON_Delete((cJSON*)heldp[j]); heldp[j] = NULL; }
            else { fprintf(stderr, "vdrv: unknown hooks action %s\n", kind); return 2; }
            al_in_call = 0;
            if (strcmp(kind, "InitHooks")) {
                /* what the property constrains is the ROUTE of every request, given the configuration in force - not which kinds of requests a call makes
                 * (a call that also releases a block, or also shrinks one with realloc under the default configuration, is drift from the call class, not a violation) */
                int pu = x_alloc_user, pl = x_alloc_libc, fu = x_free_user, fl = x_free_libc, pr = x_realloc;
                x_alloc_user = jv_is_str(jv_get(effpre, "alloc"), "user"); x_alloc_libc = !x_alloc_user;
                x_free_user = jv_is_str(jv_get(effpre, "dealloc"), "user"); x_free_libc = !x_free_user;
                x_realloc = !jv_is_str(jv_get(effpre, "realloc"), "none");
                if ((ev_um && !pu) || (al_libc_malloc_calls && !pl) || (ev_uf && !fu) || (al_libc_free_calls && !fl) || (al_libc_realloc_calls && !pr)) VD.drift++;
            }
            if (!why[0]) {
                if (ev_um && !x_alloc_user) snprintf(why, sizeof(why), "the user's allocation function was called %ld time(s) although it is not installed", ev_um);
                else if (al_libc_malloc_calls && !x_alloc_libc) snprintf(why, sizeof(why), "malloc of the C library was called %ld time(s) on the library's behalf while a custom allocation function is installed", al_libc_malloc_calls);
                else if (ev_uf && !x_free_user) snprintf(why, sizeof(why), "the user's release function was called although it is not installed");
                else if (al_libc_free_calls && !x_free_libc) snprintf(why, sizeof(why), "free of the C library was called %ld time(s) while a custom release function is installed", al_libc_free_calls);
                else if (al_libc_realloc_calls && !x_realloc) snprintf(why, sizeof(why), "realloc was used %ld time(s) although a custom hook is installed", al_libc_realloc_calls);
                else if (x_alloc_user && x_free_user && ev_bad_origin) snprintf(why, sizeof(why), "the user's release function received %ld pointer(s) its allocation function never returned", ev_bad_origin);
                else if (al_bad_free) snprintf(why, sizeof(why), "%ld release(s) of a pointer that is not a live block (released twice?)", al_bad_free);
                else if ((x_alloc_user && !ev_um && strcmp(kind, "release")) || (x_alloc_libc && !al_libc_malloc_calls && strcmp(kind, "release") && !x_alloc_user)) VD.drift++;   /* fewer requests than the call class predicts: nothing the property forbids */
            }
            /* everything still held is released through the configuration in force: the ledger must return to zero */
            for (i = 0; i < nh; i++) if (heldp[i]) { if (heldtext[i]) cJSON_free(heldp[i]); else cJSON_Delete((cJSON*)heldp[i]); }
            if (!why[0] && (al_live != 0 || al_bad_free)) snprintf(why, sizeof(why), "%ld block(s) not released / %ld invalid release(s) after everything held was released", al_live, al_bad_free);
            VD_END();
        } else { al_in_call = 0; snprintf(why, sizeof(why), "memory fault"); }
        cJSON_InitHooks(NULL);
        if (why[0]) vd_violation("%s: %s", kind, why); else VD.nontrivial++;
        if (VD.samplef && VD.samples < 6 && (VD.cases % 37 == 3)) { fputs(copy, VD.samplef); VD.samples++; }
        vd_tick(); VD.curline = NULL; free(copy);
    }
    if (stats) vd_write_stats(stats, "");
    return VD.violations ? 1 : 0;
}
