/* utils mode (C15 C16 C17 C18): replays the lines of MC_Pointer.tla and MC_Patch.tla
 *   ["G", doc, ptr, ok, path, cipath]   case-sensitive lookup must return the node at path (or NULL)
 *   ["F", doc, path, ptr]               pointer construction must give ptr, which resolves back
 *   ["A", doc, patch, class, result]    ApplyPatchesCaseSensitive: S status 0 and doc = result; F non-zero; O open
 *   ["M", target, patch, result]        MergePatchCaseSensitive = result
 *   ["P", from, to, equal, toHasNull]   GeneratePatches / GenerateMergePatch: outputs recorded for TLC (MC_UtilCheck) */
#include "value.h"
#include "cJSON_Utils.h"
#include <math.h>

static FILE *recf; static long rec_n, by[8], shared_pairs;
static void viol(const char *prop, const char *fmt, ...)
{
    char msg[900]; va_list ap;
    va_start(ap, fmt); vsnprintf(msg, sizeof(msg), fmt, ap); va_end(ap);
    if (strstr(prop, VD.prop) == NULL && prop[0] != '*') { VD.by_kind[0]++; return; }
    vd_violation("%s", msg);
}
static cJSON *node_at(cJSON *t, const jv *path)
{
    size_t i; long k;
    for (i = 0; t && i < path->n; i++) { t = t->child; for (k = jv_int(path->e[i]); t && k > 1; k--) t = t->next; }
    return t;
}
static char *cstr(const jv *bytes) { return jv_bytes(bytes, NULL); }

/* semantic equality (arrays in order, objects as key/value sets, keys case sensitive) of an expected value and a tree */
static int sem_equal(const jv *v, const cJSON *t)
{
    const char *k = jv_at(v, 0)->s; int kc = t ? (t->type & 0xFF) : -1;
    if (!t) return 0;
    switch (k[0]) {
        case 'n': return kc == cJSON_NULL; case 't': return kc == cJSON_True; case 'f': return kc == cJSON_False;
        case '#': { double e = num_of_id(jv_int(jv_at(v, 1))), d = t->valuedouble;      /* NumEq of the catalogue: |a-b| <= max(|a|,|b|) * DBL_EPSILON (exact in double arithmetic for neighbours) */
                    if (kc != cJSON_Number) return 0;
                    if (memcmp(&e, &d, 8) == 0) return 1;
                    if (isnan(e) || isnan(d) || isinf(e) || isinf(d)) return 0;
                    return fabs(e - d) <= (fabs(e) > fabs(d) ? fabs(e) : fabs(d)) * 2.220446049250313e-16; }
        case 's': case 'r': { char *s = cstr(jv_at(v, 1)); return kc == (k[0] == 's' ? cJSON_String : cJSON_Raw) && t->valuestring && !strcmp(s, t->valuestring); }
        case 'a': { const jv *ms = jv_at(v, 1); const cJSON *c = t->child; size_t i; if (kc != cJSON_Array) return 0;
                    for (i = 0; i < ms->n; i++, c = c->next) if (!c || !sem_equal(ms->e[i], c)) return 0; return c == NULL; }
        case 'o': { const jv *ms = jv_at(v, 1); const cJSON *c; size_t i, cnt = 0; if (kc != cJSON_Object) return 0;
                    for (c = t->child; c; c = c->next) cnt++;
                    if (cnt != ms->n) return 0;
                    for (i = 0; i < ms->n; i++) { char *key = cstr(jv_at(ms->e[i], 0)); int found = 0;
                        for (c = t->child; c; c = c->next) if (c->string && !strcmp(c->string, key)) { if (found || !sem_equal(jv_at(ms->e[i], 1), c)) return 0; found = 1; }
                        if (!found) return 0; }
                    return 1; }
        default: return 0;
    }
}
/* a tree the library produced, in the specification's compact form */
static void emit_tree(FILE *f, const cJSON *t)
{
    const cJSON *c; const unsigned char *p; int first = 1; long id;
    if (!t) { fputs("[\"?\"]", f); return; }
    switch (t->type & 0xFF) {
        case cJSON_NULL: fputs("[\"n\"]", f); break; case cJSON_True: fputs("[\"t\"]", f); break; case cJSON_False: fputs("[\"f\"]", f); break;
        case cJSON_Number: { uint64_t b; memcpy(&b, &t->valuedouble, 8); for (id = NUMCAT_COUNT; id > 0; id--) if (NUMCAT_BITS[id] == b) break; fprintf(f, "[\"#\",%ld]", id); break; }
        case cJSON_String: case cJSON_Raw: fprintf(f, "[\"%s\",[", (t->type & 0xFF) == cJSON_String ? "s" : "r"); for (p = (const unsigned char*)(t->valuestring ? t->valuestring : ""); *p; p++) { fprintf(f, "%s%u", first ? "" : ",", *p); first = 0; } fputs("]]", f); break;
        case cJSON_Array: fputs("[\"a\",[", f); for (c = t->child; c; c = c->next) { if (!first) fputc(',', f); first = 0; emit_tree(f, c); } fputs("]]", f); break;
        case cJSON_Object: fputs("[\"o\",[", f); for (c = t->child; c; c = c->next) { int f2 = 1; if (!first) fputc(',', f); first = 0; fputs("[[", f);
                for (p = (const unsigned char*)(c->string ? c->string : ""); *p; p++) { fprintf(f, "%s%u", f2 ? "" : ",", *p); f2 = 0; } fputs("],", f); emit_tree(f, c); fputc(']', f); } fputs("]]", f); break;
        default: fputs("[\"?\"]", f); break;
    }
}
/* after a utility call the documents must still be ordinary trees: append/detach/print/delete behave (C17 C18 C19) */
static int still_editable(cJSON *t, char *why, size_t wn)
{
    cJSON *c;
    if (!vb_wellformed(t, why, wn, 0)) return 0;
    if ((t->type & 0xFF) == cJSON_Object || (t->type & 0xFF) == cJSON_Array) {
        int n = cJSON_GetArraySize(t); cJSON *x = cJSON_CreateNumber(7), *d; char *s;
        if ((t->type & 0xFF) == cJSON_Object) cJSON_AddItemToObject(t, "zz~new", x); else cJSON_AddItemToArray(t, x);
        if (cJSON_GetArraySize(t) != n + 1 || cJSON_GetArrayItem(t, n) != x) { snprintf(why, wn, "appending to the container afterwards loses or misplaces members (size %d -> %d)", n, cJSON_GetArraySize(t)); return 0; }
        if (!vb_wellformed(t, why, wn, 0)) return 0;
        s = cJSON_PrintUnformatted(t); if (!s) { snprintf(why, wn, "cannot be printed afterwards"); return 0; } cJSON_free(s);
        d = cJSON_DetachItemViaPointer(t, x); if (d != x || cJSON_GetArraySize(t) != n) { snprintf(why, wn, "detaching the appended member fails"); return 0; } cJSON_Delete(x);
        for (c = t->child; c; c = c->next) if (!still_editable(c, why, wn)) return 0;
    }
    return 1;
}

static void do_lookup(const jv *v)
{
    cJSON *doc = vb_build(jv_at(v, 1)); char *p = cstr(jv_at(v, 2)); int ok = (int)jv_int(jv_at(v, 3)); cJSON *want = ok ? node_at(doc, jv_at(v, 4)) : NULL, *got, *gotci, *wantci;
    const jv *cip = jv_at(v, 5); uint64_t h = vb_hash(doc, 0); long live0 = al_live;
    al_window(0); got = cJSONUtils_GetPointerCaseSensitive(doc, p); gotci = cJSONUtils_GetPointer(doc, p);
    if (al_live != live0 || al_bad_free) viol("C07 C15 C16", "pointer lookup leaves %ld block(s) allocated", al_live - live0);
    wantci = (cip->n == 1 && jv_int(cip->e[0]) == -1) ? NULL : node_at(doc, cip);
    if (got != want) viol("C15", "GetPointerCaseSensitive(\"%s\") returns %s, RFC 6901 designates %s", p, got ? "another node" : "NULL", want ? "a node" : "nothing");
    else if (gotci != wantci) VD.drift++;     /* case-insensitive variant: modelled, carries no property */
    /* array elements that kept the key of an earlier life (detached from an object, added by a patch): arrays are indexed, never searched by name */
    vb_stale_keys(doc, (int)(vd_salt() & 3));
    al_window(0); got = cJSONUtils_GetPointerCaseSensitive(doc, p);
    if (got != want) viol("C15", "GetPointerCaseSensitive(\"%s\") on a document whose array elements carry left-over keys returns %s, RFC 6901 designates %s", p, got ? "another node" : "NULL", want ? "a node" : "nothing");
    (void)h;
    by[0]++;
}
static void do_find(const jv *v)
{
    cJSON *doc = vb_build(jv_at(v, 1)); cJSON *node = node_at(doc, jv_at(v, 2)); char *want = cstr(jv_at(v, 3)), *got; cJSON other; long live = al_live;
    got = cJSONUtils_FindPointerFromObjectTo(doc, node);
    if (!got) viol("C15", "FindPointerFromObjectTo returns NULL for a node inside the tree (expected \"%s\")", want);
    else { if (strcmp(got, want)) viol("C15", "FindPointerFromObjectTo gives \"%s\", the RFC 6901 pointer is \"%s\"", got, want);
           if (cJSONUtils_GetPointerCaseSensitive(doc, got) != node) viol("C15", "constructed pointer \"%s\" does not resolve back to the node", got);
           cJSON_free(got); }
    /* ownership flags (constant keys, references) on the containers along the way change nothing */
    { cJSON *c; int pass;
      for (pass = 0; pass < 2; pass++) {
          cJSON *stack[64]; int sp = 0; stack[sp++] = doc;
          while (sp) { cJSON *x = stack[--sp]; if (pass == 0) { if (x->string) x->type |= cJSON_StringIsConst; if (x != doc && x->child) x->type |= cJSON_IsReference; } else x->type &= 0xFF; for (c = x->child; c && sp < 64; c = c->next) stack[sp++] = c; }
          if (pass == 0) { got = cJSONUtils_FindPointerFromObjectTo(doc, node);
              if (!got || strcmp(got, want)) viol("C15", "FindPointerFromObjectTo gives %s%s%s for a node below containers that carry ownership flags (constant key / reference); expected \"%s\"", got ? "\"" : "", got ? got : "NULL", got ? "\"" : "", want);
              cJSON_free(got); }
      } }
    { int sch;
      for (sch = 0; sch < 4; sch++) {
          vb_stale_clear(doc); vb_stale_keys(doc, sch);
          got = cJSONUtils_FindPointerFromObjectTo(doc, node);
          if (!got || strcmp(got, want)) viol("C15", "FindPointerFromObjectTo gives %s%s%s for a node at or below an array element that carries a left-over key; the RFC 6901 pointer is \"%s\"", got ? "\"" : "", got ? got : "NULL", got ? "\"" : "", want);
          else if (cJSONUtils_GetPointerCaseSensitive(doc, got) != node) viol("C15", "constructed pointer \"%s\" does not resolve back to the node (array elements with left-over keys)", got);
          cJSON_free(got);
      }
      vb_stale_clear(doc); }
    memset(&other, 0, sizeof(other)); other.type = cJSON_NULL;
    got = cJSONUtils_FindPointerFromObjectTo(doc, &other); if (got) { viol("C15", "FindPointerFromObjectTo found a node that is not in the tree"); cJSON_free(got); }
    if (al_live != live) viol("C07 C15", "pointer construction leaks");
    by[1]++;
}
static void flag_all(cJSON *t, int on)
{
    cJSON *c;
    if (on) { if (t->string) t->type |= cJSON_StringIsConst; if ((t->type & 0xFF) == cJSON_String) t->type |= cJSON_IsReference; }
    else t->type &= 0xFF;
    for (c = t->child; c; c = c->next) flag_all(c, on);
}
/* signature of the known finding: an operation copy or move whose path is the empty pointer */
static int has_copy_move_to_root(const jv *patch)
{
    const jv *ops = jv_at(patch, 1); size_t i, j;
    if (!jv_is_str(jv_at(patch, 0), "a") || !ops) return 0;
    for (i = 0; i < ops->n; i++) {
        const jv *o = ops->e[i], *ms = jv_at(o, 1); int cm = 0, root = 0;
        if (!jv_is_str(jv_at(o, 0), "o") || !ms) continue;
        for (j = 0; j < ms->n; j++) {
            char *key = cstr(jv_at(ms->e[j], 0)); const jv *val = jv_at(ms->e[j], 1);
            if (!jv_is_str(jv_at(val, 0), "s")) continue;
            if (!strcmp(key, "op") && (!strcmp(cstr(jv_at(val, 1)), "copy") || !strcmp(cstr(jv_at(val, 1)), "move"))) cm = 1;
            if (!strcmp(key, "path") && jv_at(val, 1)->n == 0) root = 1;
        }
        if (cm && root) return 1;
    }
    return 0;
}
static void do_apply(const jv *v)
{
    cJSON *doc = vb_build(jv_at(v, 1)), *patch = vb_build(jv_at(v, 2)); const char *cls = jv_at(v, 3)->s; int st; uint64_t hp = vb_hash(patch, 0); char why[300] = "";
    al_window(0); st = cJSONUtils_ApplyPatchesCaseSensitive(doc, patch);
    if (cls[0] == 'S') {
        if (st != 0 && has_copy_move_to_root(jv_at(v, 2)) && vd_known_match("patch.copy_move_to_root")) {
            if (strstr("C16", VD.prop)) vd_known("patch.copy_move_to_root", "copy/move with path \"\" (replace the whole document) is refused (status %d)", st);
        }
        else if (st != 0) viol("C16", "ApplyPatchesCaseSensitive returns %d for a patch that RFC 6902 evaluation accepts", st);
        else if (!sem_equal(jv_at(v, 4), doc)) { char *s = cJSON_PrintUnformatted(doc); viol("C16", "patched document differs from the RFC 6902 result: %s", s ? s : "?"); cJSON_free(s); }
    } else if (cls[0] == 'F') { if (st == 0) viol("C16", "ApplyPatchesCaseSensitive returns 0 for a patch whose RFC 6902 evaluation fails"); }
    (void)hp;   /* a test operation sorts the members of its value: the patch keeps its value, not its member order */
    if (!vb_wellformed(patch, why, sizeof(why), 0)) viol("C16", "the patch document is no longer a well-formed tree: %s", why);
    if ((doc->type & 0xFF) != cJSON_Invalid && !still_editable(doc, why, sizeof(why))) viol("C16 C19", "document after patching: %s", why);
    if (al_bad_free) viol("C16", "invalid release while patching");
    if (!al_check_redzones()) viol("C16", "patching wrote beyond an allocated block");
    cJSON_Delete(doc); cJSON_Delete(patch);
    if (al_live != 0) viol("C07 C16", "%ld block(s) leaked by patch application (status %d)", al_live, st);
    /* the same document as the construction API builds it with constant keys and string references */
    if (cls[0] != 'O') {
        cm_case_begin(); doc = vb_build_flagged(jv_at(v, 1)); patch = vb_build_flagged(jv_at(v, 2));      /* the patch document too */
        al_window(0); st = cJSONUtils_ApplyPatchesCaseSensitive(doc, patch);
        if (cls[0] == 'S' && !(st != 0 && has_copy_move_to_root(jv_at(v, 2)))) {
            if (st != 0 || !sem_equal(jv_at(v, 4), doc)) viol("C16", "document with constant keys / string references: status %d or result differs from RFC 6902", st);
        } else if (cls[0] == 'F' && st == 0) viol("C16", "document with constant keys / string references: status 0 for a patch whose RFC 6902 evaluation fails");
        if ((doc->type & 0xFF) != cJSON_Invalid && !vb_wellformed(doc, why, sizeof(why), 0)) viol("C16 C19", "flagged document after patching: %s", why);
        cJSON_Delete(doc); cJSON_Delete(patch);
        if (al_bad_free || !cm_intact(why, sizeof(why))) viol("C07 C16", "patching a document with constant keys / string references released or modified borrowed memory");
        if (al_live != 0) viol("C07 C16", "%ld block(s) leaked by patching a document with constant keys / string references", al_live);
    }
    /* the same document as a detached member that still carries its name (owned, or constant as cJSON_AddItemToObjectCS leaves it): the name is
     * the caller's business, the value and the ownership rules are not */
    if (cls[0] != 'O') {
        cJSON *wrap; int cst = (int)(vd_salt() & 1); char *nm;
        cm_case_begin(); doc = vb_build(jv_at(v, 1)); patch = vb_build(jv_at(v, 2)); wrap = cJSON_CreateObject(); nm = cm_string("docname");
        if (cst) cJSON_AddItemToObjectCS(wrap, nm, doc); else cJSON_AddItemToObject(wrap, nm, doc);
        cJSON_AddItemToObject(wrap, "sibling", cJSON_CreateNumber(1));
        doc = cJSON_DetachItemViaPointer(wrap, doc); cJSON_Delete(wrap);
        al_window(0); st = cJSONUtils_ApplyPatchesCaseSensitive(doc, patch);
        if (cls[0] == 'S' && !(st != 0 && has_copy_move_to_root(jv_at(v, 2)))) {
            if (st != 0 || !sem_equal(jv_at(v, 4), doc)) viol("C16", "document that is a detached member with a%s name: status %d or result differs from RFC 6902", cst ? " constant" : "n owned", st);
        } else if (cls[0] == 'F' && st == 0) viol("C16", "document that is a detached member with a name: status 0 for a patch whose RFC 6902 evaluation fails");
        if ((doc->type & 0xFF) != cJSON_Invalid && !still_editable(doc, why, sizeof(why))) viol("C16 C19", "named document after patching: %s", why);
        cJSON_Delete(doc); cJSON_Delete(patch);
        if (al_bad_free || !cm_intact(why, sizeof(why))) viol("C07 C16", "patching a document that carries a%s name released or modified memory the library does not own", cst ? " constant" : "n owned");
        if (al_live != 0) viol("C07 C16", "%ld block(s) leaked by patching a document that carries a%s name", al_live, cst ? " constant" : "n owned");
    }
    by[2]++; by[3 + (cls[0] == 'S' ? 0 : cls[0] == 'F' ? 1 : 2)]++;
}
static void do_merge(const jv *v)
{
    cJSON *target = vb_build(jv_at(v, 1)), *patch = vb_build(jv_at(v, 2)), *res; uint64_t hp = vb_hash(patch, 0); char why[300] = "";
    al_window(0); res = cJSONUtils_MergePatchCaseSensitive(target, patch);
    if (!res) viol("C18", "MergePatchCaseSensitive returned NULL");
    else {
        if (!sem_equal(jv_at(v, 3), res)) { char *s = cJSON_PrintUnformatted(res); viol("C18", "merge result differs from RFC 7396: %s", s ? s : "?"); cJSON_free(s); }
        if (!still_editable(res, why, sizeof(why))) viol("C18 C19", "merge result: %s", why);
    }
    (void)hp;

    cJSON_Delete(res); cJSON_Delete(patch);
    if (al_live != 0 || al_bad_free) viol("C07 C18", "%ld block(s) leaked / %ld invalid releases by merge patch application", al_live, al_bad_free);
    /* target and patch as the construction API builds them with constant keys and string references: ownership bits in the
     * type word of a member change nothing (null still deletes, objects still merge) */
    cm_case_begin(); target = vb_build_flagged(jv_at(v, 1)); patch = vb_build_flagged(jv_at(v, 2));
    al_window(0); res = cJSONUtils_MergePatchCaseSensitive(target, patch);
    if (!res || !sem_equal(jv_at(v, 3), res)) { char *s = res ? cJSON_PrintUnformatted(res) : NULL; viol("C18", "target / patch with constant keys and string references: merge result differs from RFC 7396: %s", s ? s : "NULL"); cJSON_free(s); }
    else if (!vb_wellformed(res, why, sizeof(why), 0)) viol("C18 C19", "merge result (flagged documents): %s", why);
    cJSON_Delete(res); cJSON_Delete(patch);
    if (al_bad_free || !cm_intact(why, sizeof(why))) viol("C07 C18", "merging documents with constant keys / string references released or modified borrowed memory");
    if (al_live != 0) viol("C07 C18", "%ld block(s) leaked by merging documents with constant keys / string references", al_live);
    by[6]++;
}
static void do_pair(const jv *v)
{
    const jv *jf = jv_at(v, 1), *jt = jv_at(v, 2); int eq = (int)jv_int(jv_at(v, 3)), tonull = (int)jv_int(jv_at(v, 4)); char why[300] = "";
    cJSON *from = vb_build(jf), *to = vb_build(jt), *p, *copy; int st;
    vb_payload(from, 0); vb_payload(to, 1);      /* the two documents need not have been built the same way (independent of the order in which TLC emits the cases) */
    /* --- RFC 6902 generation --- */
    al_window(0); p = cJSONUtils_GeneratePatchesCaseSensitive(from, to);
    if (!p || (p->type & 0xFF) != cJSON_Array) viol("C17", "GeneratePatchesCaseSensitive did not return an array");
    else {
        if ((p->child == NULL) != (eq != 0)) viol("C17", "generated patch is %s although the documents are %s", p->child ? "not empty" : "empty", eq ? "equal" : "different");
        if (!sem_equal(jf, from) || !sem_equal(jt, to)) viol("C17", "patch generation changed the value of an input document");
        copy = cJSON_Duplicate(from, 1); st = cJSONUtils_ApplyPatchesCaseSensitive(copy, p);
        if (st != 0 || !sem_equal(jt, copy)) { char *s = cJSON_PrintUnformatted(p); viol("C17", "applying the generated patch to 'from' (status %d) does not give 'to'; patch %s", st, s ? s : "?"); cJSON_free(s); }
        cJSON_Delete(copy);
        if (recf) { fprintf(recf, "{\"k\":\"patch\",\"from\":"); jv_print(recf, jf); fprintf(recf, ",\"to\":"); jv_print(recf, jt); fprintf(recf, ",\"p\":"); emit_tree(recf, p); fprintf(recf, "}\n"); rec_n++; }
    }
    if (!still_editable(from, why, sizeof(why)) || !still_editable(to, why, sizeof(why))) viol("C17 C19", "input document after patch generation: %s", why);
    cJSON_Delete(p);
    /* --- RFC 7396 generation (the property covers targets without null members) --- */
    if (!tonull) {
        cJSON *mp, *res;
        /* on documents as they were built (the RFC 6902 generation above has sorted 'from' and 'to' at every level; a fresh pair has not been touched) */
        { cJSON *f2 = vb_build(jf), *t2 = vb_build(jt), *m2, *c2, *r2;
          al_window(0); m2 = cJSONUtils_GenerateMergePatchCaseSensitive(f2, t2);
          if (!sem_equal(jf, f2) || !sem_equal(jt, t2)) viol("C18", "merge patch generation changed the value of an input document");
          c2 = vb_build(jf); r2 = m2 ? cJSONUtils_MergePatchCaseSensitive(c2, m2) : c2;
          if (!r2 || !sem_equal(jt, r2)) { char *s = m2 ? cJSON_PrintUnformatted(m2) : NULL; viol("C18", "applying the merge patch generated from untouched documents (%s) to 'from' does not give 'to'", s ? s : "NULL = no change"); cJSON_free(s); }
          if (!still_editable(f2, why, sizeof(why)) || !still_editable(t2, why, sizeof(why))) viol("C18 C19", "input document after merge patch generation: %s", why);
          cJSON_Delete(r2); cJSON_Delete(m2); cJSON_Delete(f2); cJSON_Delete(t2); }
        al_window(0); mp = cJSONUtils_GenerateMergePatchCaseSensitive(from, to);
        if (!sem_equal(jf, from) || !sem_equal(jt, to)) viol("C18", "merge patch generation changed the value of an input document");
        copy = cJSON_Duplicate(from, 1);
        res = mp ? cJSONUtils_MergePatchCaseSensitive(copy, mp) : copy;
        if (!res || !sem_equal(jt, res)) { char *s = mp ? cJSON_PrintUnformatted(mp) : NULL; viol("C18", "applying the generated merge patch (%s) to 'from' does not give 'to'", s ? s : "NULL = no change"); cJSON_free(s); }
        cJSON_Delete(res);
        if (recf) { fprintf(recf, "{\"k\":\"merge\",\"from\":"); jv_print(recf, jf); fprintf(recf, ",\"to\":"); jv_print(recf, jt); fprintf(recf, ",\"p\":"); if (mp) emit_tree(recf, mp); else fputs("[\"none\"]", recf); fprintf(recf, "}\n"); rec_n++; }
        if (!still_editable(from, why, sizeof(why)) || !still_editable(to, why, sizeof(why))) viol("C18 C19", "input document after merge patch generation: %s", why);
        cJSON_Delete(mp);
    }
    /* the generated patches own what they hold: they are used after both inputs are gone */
    {
        cJSON *p2 = cJSONUtils_GeneratePatchesCaseSensitive(from, to), *mp2 = tonull ? NULL : cJSONUtils_GenerateMergePatchCaseSensitive(from, to), *c1 = cJSON_Duplicate(from, 1), *c2 = cJSON_Duplicate(from, 1), *res2;
        cJSON_Delete(from); cJSON_Delete(to);
        st = cJSONUtils_ApplyPatchesCaseSensitive(c1, p2);
        if (st != 0 || !sem_equal(jt, c1)) viol("C17 C07", "the generated patch, applied after both input documents were deleted, does not give 'to' (status %d): it does not own its memory", st);
        if (!tonull) { res2 = mp2 ? cJSONUtils_MergePatchCaseSensitive(c2, mp2) : c2; if (!res2 || !sem_equal(jt, res2)) viol("C18 C07", "the generated merge patch, applied after both input documents were deleted, does not give 'to': it does not own its memory"); c2 = res2; }
        cJSON_Delete(p2); cJSON_Delete(mp2); cJSON_Delete(c1); cJSON_Delete(c2);
    }
    if (al_live != 0 || al_bad_free) viol("C07 C17 C18", "%ld block(s) leaked / %ld invalid releases by patch generation", al_live, al_bad_free);
    /* the same documents as the construction API builds them with constant keys and string references: ownership flags
     * on the nodes change nothing */
    {
        cJSON *mp, *res, *copy2;
        cm_case_begin(); from = vb_build_flagged(jf); to = vb_build_flagged(jt);
        if (!tonull && (vd_salt() & 2)) {      /* merge patch generation first: on documents no other utility has sorted yet */
            mp = cJSONUtils_GenerateMergePatchCaseSensitive(from, to);
            copy2 = cJSON_Duplicate(from, 1); res = mp ? cJSONUtils_MergePatchCaseSensitive(copy2, mp) : copy2;
            if (!res || !sem_equal(jt, res)) viol("C18", "documents with constant keys / string references (untouched): applying the generated merge patch to 'from' does not give 'to'");
            cJSON_Delete(res); cJSON_Delete(mp);
        }
        p = cJSONUtils_GeneratePatchesCaseSensitive(from, to);
        if (!p || (p->child == NULL) != (eq != 0)) viol("C17", "with constant keys / string references in the documents the generated patch is %s although the documents are %s", (p && p->child) ? "not empty" : "empty", eq ? "equal" : "different");
        else { copy2 = cJSON_Duplicate(from, 1); st = cJSONUtils_ApplyPatchesCaseSensitive(copy2, p);
               if (st != 0 || !sem_equal(jt, copy2)) viol("C17", "documents with constant keys / string references: applying the generated patch to 'from' does not give 'to'");
               cJSON_Delete(copy2); }
        cJSON_Delete(p);
        if (!tonull) {
            mp = cJSONUtils_GenerateMergePatchCaseSensitive(from, to);
            copy2 = cJSON_Duplicate(from, 1); res = mp ? cJSONUtils_MergePatchCaseSensitive(copy2, mp) : copy2;
            if (!res || !sem_equal(jt, res)) { char *s = mp ? cJSON_PrintUnformatted(mp) : NULL; viol("C18", "documents with constant keys / string references: applying the generated merge patch (%s) to 'from' does not give 'to'", s ? s : "NULL = no change"); cJSON_free(s); }
            cJSON_Delete(res); cJSON_Delete(mp);
        }
        cJSON_Delete(from); cJSON_Delete(to);
        if (!cm_intact(why, sizeof(why))) viol("C07", "patch generation modified borrowed memory (constant keys / referenced strings)");
        if (al_live != 0 || al_bad_free) viol("C07 C17 C18", "%ld block(s) leaked / %ld invalid releases by patch generation on documents with ownership flags", al_live, al_bad_free);
    }
    /* documents whose nested containers are shared through reference nodes (cJSON_AddItemReferenceToObject): generation only reads and
     * sorts; the owners keep their value and stay well-formed */
    {
        cJSON *mp, *res, *copy2; int i;
        cm_case_begin(); from = vb_build_shared(jf); to = vb_build_shared(jt);
        if (vb_pool_count()) {
            shared_pairs++;
            p = cJSONUtils_GeneratePatchesCaseSensitive(from, to);
            if (!p || (p->child == NULL) != (eq != 0)) viol("C17", "with nested containers held through reference nodes the generated patch is %s although the documents are %s", (p && p->child) ? "not empty" : "empty", eq ? "equal" : "different");
            else { copy2 = cJSON_Duplicate(from, 1); st = cJSONUtils_ApplyPatchesCaseSensitive(copy2, p);
                   if (st != 0 || !sem_equal(jt, copy2)) { char *s = cJSON_PrintUnformatted(p); viol("C17", "documents with nested containers held through reference nodes: applying the generated patch %s to 'from' does not give 'to'", s ? s : "?"); cJSON_free(s); }
                   cJSON_Delete(copy2); }
            cJSON_Delete(p);
            if (!tonull) {
                mp = cJSONUtils_GenerateMergePatchCaseSensitive(from, to);
                copy2 = cJSON_Duplicate(from, 1); res = mp ? cJSONUtils_MergePatchCaseSensitive(copy2, mp) : copy2;
                if (!res || !sem_equal(jt, res)) viol("C18", "documents with nested containers held through reference nodes: applying the generated merge patch to 'from' does not give 'to'");
                cJSON_Delete(res); cJSON_Delete(mp);
            }
            if (!sem_equal(jf, from) || !sem_equal(jt, to)) viol("C17 C18", "generation changed the value of a document whose nested containers are held through reference nodes");
            for (i = 0; i < vb_pool_count(); i++)
                if (!vb_wellformed(vb_pool_owner(i), why, sizeof(why), 0) || !sem_equal(vb_pool_value(i), vb_pool_owner(i))) { viol("C07 C17 C19", "generation damaged a container that the document only refers to (%s)", why[0] ? why : "value changed"); break; }
        }
        cJSON_Delete(from); cJSON_Delete(to); vb_pool_release();
        if (!cm_intact(why, sizeof(why))) viol("C07", "patch generation modified borrowed memory (constant keys / referenced strings)");
        if (al_live != 0 || al_bad_free) viol("C07 C17 C18", "%ld block(s) leaked / %ld invalid releases by patch generation on documents with shared containers", al_live, al_bad_free);
    }
    by[7]++;
}

/* ["D", tree]: a recursive duplicate denotes the same value, is well-formed, shares no block with the source (C11) */
static long claim_tree(const cJSON *t)          /* tags every block the tree owns; returns the number of blocks that are not live or already claimed */
{
    long bad = 0; const cJSON *c; blk *b;
    b = al_find(t); if (!b || b->state != 1 || b->tag) bad++; else b->tag = 1;
    if (t->string && !(t->type & cJSON_StringIsConst)) { b = al_find(t->string); if (!b || b->state != 1 || b->tag) bad++; else b->tag = 1; }
    if (t->valuestring && !(t->type & cJSON_IsReference)) { b = al_find(t->valuestring); if (!b || b->state != 1 || b->tag) bad++; else b->tag = 1; }
    if (!(t->type & cJSON_IsReference)) for (c = t->child; c; c = c->next) bad += claim_tree(c);
    return bad;
}
static long jv_weight(const jv *v) { long n = 1; size_t k; if (!v) return 0; if (v->t == JV_ARR) for (k = 0; k < v->n && n < 100000; k++) n += jv_weight(v->e[k]); return n; }
static int obj_depth(const cJSON *t) { const cJSON *c; int d = 0, x; for (c = t->child; c; c = c->next) { x = obj_depth(c); if (x > d) d = x; } return d + (((t->type & 0xFF) == cJSON_Object) ? 1 : 0); }
static void do_dup(const jv *v)
{
    cJSON *src = vb_build(jv_at(v, 1)), *copy, *shallow; char why[300] = ""; uint64_t h = vb_hash(src, 0); blk *b; long bad;
    int refuse = (v->n >= 3) ? (int)jv_int(jv_at(v, 2)) : 0; long live0 = al_live;
    al_window(0); copy = cJSON_Duplicate(src, vb_truthy(1, vd_salt()));
    if (refuse) {      /* some node lies deeper than CJSON_CIRCULAR_LIMIT: refused, nothing kept, source untouched (whatever child the deep branch hangs off) */
        if (copy) { viol("C11", "cJSON_Duplicate copied a structure nested deeper than CJSON_CIRCULAR_LIMIT instead of refusing it"); cJSON_Delete(copy); }
        else if (al_live != live0) viol("C11 C07", "the refused duplicate of an over-deep structure leaves %ld block(s) allocated", al_live - live0);
        if (vb_hash(src, 0) != h) viol("C11", "the refused duplication modified the source");
        cJSON_Delete(src);
        if (al_live != 0 || al_bad_free) viol("C11 C07", "%ld block(s) remain after deleting the over-deep source", al_live);
        return;
    }
    if (!copy) { viol("C11", "cJSON_Duplicate returned NULL for a tree within the nesting limit"); cJSON_Delete(src); return; }
    if (!vb_equal(jv_at(v, 1), copy, why, sizeof(why), 0)) viol("C11", "the duplicate differs from the source: %s", why);
    else if (!vb_wellformed(copy, why, sizeof(why), 0)) viol("C11", "the duplicate is not well-formed: %s", why);
    if (copy->next || copy->prev) viol("C11", "the duplicate has sibling links");
    /* cJSON_Compare looks every member up in both directions and recurses both times, i.e. 2^depth work on nested objects:
     * it is only consulted where that terminates in reasonable time (the structural comparison above is complete anyway) */
    if (obj_depth(src) <= 16 && !cJSON_Compare(src, copy, 1)) viol("C11", "the duplicate does not compare equal to the source");
    if (vb_hash(src, 0) != h) viol("C11", "duplication modified the source");
    for (b = al_all; b; b = b->nextall) b->tag = 0;
    bad = claim_tree(src) + claim_tree(copy);
    if (bad) viol("C11", "source and duplicate share %ld block(s) (or own released memory)", bad);
    for (b = al_all; b; b = b->nextall) if (b->state == 1 && !b->tag) { viol("C11 C07", "duplication left a block of %zu bytes that belongs to neither tree", b->size); break; }
    shallow = cJSON_Duplicate(src, 0);
    if (!shallow || shallow->child || shallow->next || shallow->prev) viol("C11", "a non-recursive duplicate has children or sibling links");
    cJSON_Delete(shallow);
    cJSON_Delete(src);
    if (!vb_equal(jv_at(v, 1), copy, why, sizeof(why), 0)) viol("C11", "deleting the source changed the duplicate: %s", why);
    cJSON_Delete(copy);
    if (al_live != 0 || al_bad_free) viol("C11 C07", "%ld block(s) remain / %ld invalid releases after deleting source and duplicate", al_live, al_bad_free);
    /* the same tree with its nested containers held through reference nodes (dozens of references nested in one another for the deep cases), and the
     * innermost shared container referenced twice by neighbouring reference nodes: a duplicate is an owned copy of all of it */
    {
        cJSON *s2, *deepest = NULL, *par = NULL, *x, *c2; int depth = 0;
        cm_case_begin(); s2 = jv_weight(jv_at(v, 1)) <= 1500 ? vb_build_shared(jv_at(v, 1)) : NULL;
        if (s2 && vb_pool_count()) {
            for (x = s2; x; x = x->child) { cJSON *y = x->child; while (y && !(y->type & cJSON_IsReference)) y = y->next; if (!y) break; par = x; deepest = y; depth++; x = y; if (depth > 5000) break; }
            al_window(0); c2 = cJSON_Duplicate(s2, 1);
            if (!c2) viol("C11", "cJSON_Duplicate returned NULL for a well-formed tree whose nested containers are held through %d nested reference nodes", depth);
            else { if (!vb_equal(jv_at(v, 1), c2, why, sizeof(why), 0)) viol("C11", "the duplicate of a tree with reference nodes differs from the source: %s", why);
                   for (b = al_all; b; b = b->nextall) b->tag = 0;
                   { int i; long bad2 = claim_tree(s2) + claim_tree(c2); for (i = 0; i < vb_pool_count(); i++) bad2 += claim_tree(vb_pool_owner(i)); if (bad2) viol("C11", "the duplicate shares %ld block(s) with the source or with the containers the source only refers to", bad2); }
                   cJSON_Delete(c2); }
            if (deepest && par && (par->type & 0xFF) == cJSON_Array) {
                cJSON *twin = (cJSON*)al_raw(sizeof(cJSON)); char *p1, *p2;
                *twin = *deepest; twin->string = NULL; twin->next = deepest->next; twin->prev = deepest; if (deepest->next) deepest->next->prev = twin; else par->child->prev = twin; deepest->next = twin;
                al_window(0); c2 = cJSON_Duplicate(s2, 1);
                if (!c2) viol("C11", "cJSON_Duplicate returned NULL for a well-formed, non-circular tree in which two neighbouring reference nodes (below %d nested reference nodes) refer to the same container", depth - 1);
                else { p1 = cJSON_PrintUnformatted(s2); p2 = cJSON_PrintUnformatted(c2); if (!p1 || !p2 || strcmp(p1, p2)) viol("C11", "the duplicate of a tree with two references to one container prints differently"); cJSON_free(p1); cJSON_free(p2); cJSON_Delete(c2); }
            }
        }
        cJSON_Delete(s2); vb_pool_release();
        if (al_live != 0 || al_bad_free) viol("C11 C07", "%ld block(s) remain after duplicating a tree with shared containers", al_live);
    }
}
/* ["S", keys, cs]: sorting an object with these member keys; the resulting order is recorded for MC_UtilCheck (C19) */
static void do_sort(const jv *v)
{
    const jv *keys = jv_at(v, 1); int cs = (int)jv_int(jv_at(v, 2)); size_t n = keys->n, i; cJSON *o = cJSON_CreateObject(), *c; char why[300] = ""; cJSON **nodes = (cJSON**)calloc(n + 1, sizeof(cJSON*));
    for (i = 0; i < n; i++) { nodes[i] = cJSON_CreateNumber((double)(i + 1)); cJSON_AddItemToObject(o, cstr(keys->e[i]), nodes[i]); }
    al_window(0);
    if (cs) cJSONUtils_SortObjectCaseSensitive(o); else cJSONUtils_SortObject(o);
    if (al_allocs) viol("C19", "sorting allocated memory");
    if (!vb_wellformed(o, why, sizeof(why), 0)) viol("C19", "object after sorting %zu members: %s", n, why);
    if ((size_t)cJSON_GetArraySize(o) != n) viol("C19", "object has %d members after sorting %zu", cJSON_GetArraySize(o), n);
    if (recf) {
        size_t k;
        fprintf(recf, "{\"k\":\"sort\",\"cs\":%s,\"before\":[", cs ? "true" : "false");
        for (k = 0; k < n; k++) { const jv *kb = keys->e[k]; size_t j; fprintf(recf, "%s[", k ? "," : ""); for (j = 0; j < kb->n; j++) fprintf(recf, "%s%ld", j ? "," : "", jv_int(kb->e[j])); fputc(']', recf); }
        fputs("],\"after\":[", recf);
        for (c = o->child, k = 0; c && k <= n; c = c->next, k++) { fprintf(recf, "%s%d", k ? "," : "", c->valueint); }
        fputs("]}\n", recf); rec_n++;
    }
    for (i = 0; i < n; i++) {       /* values, keys and subtrees untouched */
        const cJSON *m; int found = 0;
        for (m = o->child; m; m = m->next) if (m == nodes[i]) { found = 1; break; }
        if (!found || nodes[i]->valueint != (int)(i + 1) || strcmp(nodes[i]->string, cstr(keys->e[i]))) { viol("C19", "member %zu is missing or changed after sorting", i + 1); break; }
    }
    /* idempotent, and an ordinary container afterwards */
    { uint64_t h1 = vb_hash(o, 0); if (cs) cJSONUtils_SortObjectCaseSensitive(o); else cJSONUtils_SortObject(o); if (vb_hash(o, 0) != h1) viol("C19", "sorting twice differs from sorting once (%zu members)", n); }
    if (!still_editable(o, why, sizeof(why))) viol("C19", "object after sorting: %s", why);
    free(nodes); cJSON_Delete(o);
    if (al_live != 0 || al_bad_free) viol("C19 C07", "%ld block(s) remain after deleting the sorted object (members lost?)", al_live);
}

/* ["Z", n, stride]: scale cases for sorting and for the utilities that sort internally.  Keys: 'k' (or 'K' for every second member in the
 * folded variant) and the 7 digits of (i * stride) mod n: distinct, far from sorted.  Verdict = SortVerdict of MC_UtilCheck: the same member nodes,
 * keys non-decreasing in byte order / ASCII-folded order. */
static int fold_cmp(const char *a, const char *b) { for (;; a++, b++) { int x = (unsigned char)*a, y = (unsigned char)*b; if (x >= 'A' && x <= 'Z') x += 32; if (y >= 'A' && y <= 'Z') y += 32; if (x != y) return x - y; if (!x) return 0; } }
static int scale_pattern;      /* 0: stride; 1: ascending blocks of two in descending block order; 2: strictly descending; 3: ascending blocks of three, descending */
static long scale_rank(long i, long n, long st)
{
    switch (scale_pattern) {
        case 1: return ((n - 1 - i) / 2) * 2 + (1 - ((n - 1 - i) & 1)) < n ? ((n - 1 - i) / 2) * 2 + (1 - ((n - 1 - i) & 1)) : n - 1;
        case 2: return n - 1 - i;
        case 3: { long b = (n - 1 - i) / 3, r = 2 - ((n - 1 - i) % 3), v = b * 3 + r; return v < n ? v : n - 1 - i; }
        default: return (i * st) % n;
    }
}
static cJSON *scale_object(long n, long st, int mixcase, long skip, long change)
{
    cJSON *o = cJSON_CreateObject(); long i; char key[16];
    for (i = 0; i < n; i++) { if (i == skip) continue; snprintf(key, sizeof(key), "%c%07ld", (mixcase && (i & 1)) ? 'K' : 'k', scale_rank(i, n, st)); cJSON_AddItemToObject(o, key, cJSON_CreateNumber(i == change ? -5.0 : (double)(i % 1000))); if ((i & 4095) == 0) vd_tick(); }
    return o;
}
static long count_sorted(const cJSON *o, int cs, int *sorted, int *links)
{
    const cJSON *c, *last = NULL; long n = 0; *sorted = 1; *links = 1;
    for (c = o->child; c; c = c->next) { if (last) { if ((cs ? strcmp(last->string, c->string) : fold_cmp(last->string, c->string)) > 0) *sorted = 0; if (c->prev != last) *links = 0; } last = c; n++; if ((n & 65535) == 0) vd_tick(); }
    if (o->child && o->child->prev != last) *links = 0;
    return n;
}
static void do_scale_sort(const jv *v)
{
    long n = jv_int(jv_at(v, 1)), st = jv_int(jv_at(v, 2)); int cs;
    for (scale_pattern = 0; scale_pattern < (n > 200000 ? 4 : 1); scale_pattern++)       /* the order of the keys matters for a merge sort: four shapes at the largest size */
    for (cs = 1; cs >= (scale_pattern ? 1 : 0); cs--) {
        cJSON *o = scale_object(n, st, !cs, -1, -1); int sorted, links; long m;
        al_window(0);
        if (cs) cJSONUtils_SortObjectCaseSensitive(o); else cJSONUtils_SortObject(o);
        m = count_sorted(o, cs, &sorted, &links);
        if (m != n) viol("C19", "object has %ld members after sorting %ld (members lost or duplicated)", m, n);
        else if (!sorted) viol("C19", "after sorting %ld members the keys are not in non-decreasing %s order", n, cs ? "byte" : "ASCII-folded");
        else if (!links) viol("C19", "after sorting %ld members the sibling links are inconsistent", n);
        if (al_allocs) viol("C19", "sorting allocated memory");
        cJSON_Delete(o);
        if (al_live != 0 || al_bad_free) { viol("C19 C07", "%ld block(s) remain after deleting the sorted object of %ld members (members lost?)", al_live, n); al_case_begin(); }
        by[0]++;
    }
    scale_pattern = 0;
    if (n <= 100000) {   /* patch and merge-patch generation sort both documents: they stay complete, the patch names exactly what differs */
        cJSON *from = scale_object(n, st, 0, -1, -1), *to = scale_object(n, st, 0, n / 3, n / 2), *mp, *p; int s1, l1; long cf, ct; char k1[16], k2[16];
        snprintf(k1, sizeof(k1), "k%07ld", ((n / 3) * st) % n); snprintf(k2, sizeof(k2), "k%07ld", ((n / 2) * st) % n);
        al_window(0); mp = cJSONUtils_GenerateMergePatchCaseSensitive(from, to);
        cf = count_sorted(from, 1, &s1, &l1); ct = count_sorted(to, 1, &s1, &l1);
        if (cf != n || ct != n - 1) viol("C18 C19", "merge patch generation on objects of %ld members changed their size (from %ld, to %ld)", n, cf, ct);
        if (!mp || cJSON_GetArraySize(mp) != 2 || !cJSON_IsNull(cJSON_GetObjectItemCaseSensitive(mp, k1)) || !cJSON_IsNumber(cJSON_GetObjectItemCaseSensitive(mp, k2)))
            viol("C18", "the merge patch generated for objects of %ld members (one member removed, one changed) has %d member(s) and does not name exactly those two", n, mp ? cJSON_GetArraySize(mp) : -1);
        cJSON_Delete(mp);
        al_window(0); p = cJSONUtils_GeneratePatchesCaseSensitive(from, to);
        cf = count_sorted(from, 1, &s1, &l1); ct = count_sorted(to, 1, &s1, &l1);
        if (cf != n || ct != n - 1) viol("C17 C19", "patch generation on objects of %ld members changed their size (from %ld, to %ld)", n, cf, ct);
        if (!p || cJSON_GetArraySize(p) != 2) viol("C17", "the patch generated for objects of %ld members (one member removed, one changed) has %d operation(s)", n, p ? cJSON_GetArraySize(p) : -1);
        else { int st2 = cJSONUtils_ApplyPatchesCaseSensitive(from, p); long cc = count_sorted(from, 1, &s1, &l1); if (st2 != 0 || cc != n - 1 || cJSON_GetObjectItemCaseSensitive(from, k1) || cJSON_GetObjectItemCaseSensitive(from, k2)->valuedouble != -5.0) viol("C17", "applying the patch generated for objects of %ld members does not give 'to' (status %d)", n, st2); }
        cJSON_Delete(p); cJSON_Delete(from); cJSON_Delete(to);
        if (al_live != 0 || al_bad_free) { viol("C07 C17 C18", "%ld block(s) remain after generation on objects of %ld members", al_live, n); al_case_begin(); }
    }
}

/* ["Q", keys, name, cs, index]: an object with these member keys; the lookup by name must give member index (1-based, 0 = none): C06 */
static void do_keyquery(const jv *v)
{
    const jv *keys = jv_at(v, 1); char *name = cstr(jv_at(v, 2)); int cs = (int)jv_int(jv_at(v, 3)); long want = jv_int(jv_at(v, 4)); size_t n = keys->n, i; cJSON *o = cJSON_CreateObject(), *got, *d; long idx = 0; const cJSON *c;
    for (i = 0; i < n; i++) cJSON_AddItemToObject(o, cstr(keys->e[i]), cJSON_CreateNumber((double)(i + 1)));
    al_window(0);
    got = cs ? cJSON_GetObjectItemCaseSensitive(o, name) : cJSON_GetObjectItem(o, name);
    if (got) for (c = o->child, idx = 1; c && c != got; c = c->next) idx++;
    if (idx != want) viol("C06", "%s with a name of %zu bytes returns member %ld, the first member with that key is %ld (0 = none)", cs ? "cJSON_GetObjectItemCaseSensitive" : "cJSON_GetObjectItem", strlen(name), idx, want);
    if (!cs && (cJSON_HasObjectItem(o, name) != 0) != (want != 0)) viol("C06", "cJSON_HasObjectItem with a name of %zu bytes answers %s", strlen(name), want ? "no" : "yes");
    d = cs ? cJSON_DetachItemFromObjectCaseSensitive(o, name) : cJSON_DetachItemFromObject(o, name);
    if ((d != NULL) != (want != 0) || (d && d->valueint != (int)want)) viol("C06", "detaching by a name of %zu bytes (%s) takes %s", strlen(name), cs ? "case sensitive" : "case insensitive", d ? "another member or a member although none has that key" : "nothing although a member has that key");
    if (cJSON_GetArraySize(o) != (int)n - (d ? 1 : 0)) viol("C06", "object size after detaching by name is wrong");
    cJSON_Delete(d); cJSON_Delete(o);
    if (al_live != 0 || al_bad_free) viol("C07 C06", "%ld block(s) remain after the key queries", al_live);
    by[0]++;
}

int vd_utils_main(int argc, char **argv);
/* ------------------------------------------------------------------------------------------------------
 * Documents as deep as the parser accepts (CJSON_NESTING_LIMIT levels of containers around one number).  Pointer.tla / Patch.tla recurse on
 * the value without any bound, so at every depth: PointerTo gives "/0" or "/a" per level and Resolve brings it back (C15); equal documents
 * give an empty patch / no merge patch, a changed leaf gives a patch that transforms one into the other (C17, C18); test + replace on the
 * leaf succeeds (C16).  Built with the API, compared by printing (cJSON_Compare is exponential on nested objects). */
/* ["W", fold]: the case folding of the case-insensitive member order as a byte table (MC_Big: FoldOrderLemma).  Two members whose keys differ in one
 * byte, every pair of byte values, both variants: the smaller (folded) byte comes first, equal folded bytes may stand in either order but a second sort
 * keeps it (C19), links stay healthy. */
static long foldsort_pairs;
static void do_foldsort(const jv *v)
{
    const jv *tab = jv_at(v, 1); unsigned fold[256]; unsigned b1, b2; int cs;
    if (!tab || tab->n != 255) { viol("*", "fold table malformed"); return; }
    for (b1 = 1; b1 <= 255; b1++) fold[b1] = (unsigned)jv_int(tab->e[b1 - 1]);
    for (b1 = 1; b1 <= 255; b1++) { vd_tick(); for (b2 = 1; b2 <= 255; b2++) for (cs = 0; cs < 2; cs++) {
        char k1[5] = { 'k', 0, 'x', 0, 0 }, k2[5] = { 'k', 0, 'x', 0, 0 }; cJSON *o, *m1, *m2, *f, *s; unsigned x1, x2; int want1;
        if ((b1 + b2 + (unsigned)cs) % 2 && b1 > 32 && b1 < 127 && b2 > 32 && b2 < 127 && !((b1 >= 58 && b1 <= 96) || (b2 >= 58 && b2 <= 96))) continue;     /* half of the plain digit / lower-case pairs */
        k1[1] = (char)b1; k2[1] = (char)b2;
        o = cJSON_CreateObject(); m1 = cJSON_AddNumberToObject(o, k1, 1); m2 = cJSON_AddNumberToObject(o, k2, 2); foldsort_pairs++;
        if (cs) cJSONUtils_SortObjectCaseSensitive(o); else cJSONUtils_SortObject(o);
        x1 = cs ? b1 : fold[b1]; x2 = cs ? b2 : fold[b2];
        f = o->child; s = f ? f->next : NULL;
        if (!f || !s || s->next || f->prev != s || s->prev != f || !((f == m1 && s == m2) || (f == m2 && s == m1))) { viol("C19", "sorting two members (key bytes %02x, %02x; %s) does not leave the two members in a healthy chain", b1, b2, cs ? "case sensitive" : "case insensitive"); cJSON_Delete(o); al_case_begin(); continue; }
        want1 = x1 < x2 ? 1 : x1 > x2 ? 2 : 0;
        if (want1 && f != (want1 == 1 ? m1 : m2)) viol("C19", "%s sort: the key with byte %02x stands before the key with byte %02x", cs ? "case sensitive" : "case insensitive", (want1 == 1) ? b2 : b1, (want1 == 1) ? b1 : b2);
        if (cs) cJSONUtils_SortObjectCaseSensitive(o); else cJSONUtils_SortObject(o);
        if (o->child != f || !o->child || o->child->next != s) viol("C19", "sorting twice differs from sorting once (key bytes %02x, %02x, %s)", b1, b2, cs ? "case sensitive" : "case insensitive");
        cJSON_Delete(o);
        if (al_live != 0) { viol("C07 C19", "sorting two members leaves %ld block(s) allocated", al_live); al_case_begin(); }
        if ((foldsort_pairs & 1023) == 0) al_case_begin();
        if (VD.violations > 20) return;
    } }
}
static long deep_util_cases;
static cJSON *deep_doc(int depth, int shape, double leaf, cJSON **inner)
{
    cJSON *root = NULL, *cur = NULL, *n; int d;
    for (d = 0; d < depth; d++) {
        int obj = shape == 1 || (shape == 2 && (d & 1));
        n = obj ? cJSON_CreateObject() : cJSON_CreateArray();
        if (!root) root = n; else if ((cur->type & 0xFF) == cJSON_Object) cJSON_AddItemToObject(cur, "a", n); else cJSON_AddItemToArray(cur, n);
        cur = n;
    }
    n = cJSON_CreateNumber(leaf); *inner = n;
    if ((cur->type & 0xFF) == cJSON_Object) cJSON_AddItemToObject(cur, "a", n); else cJSON_AddItemToArray(cur, n);
    return root;
}
static void deep_util_run(void)
{
#ifndef VD_LIMITS
    static const int D[] = { 500, 999, 1000 }; size_t di; int shape;
    for (di = 0; di < 3; di++) for (shape = 0; shape < 3; shape++) {
        int depth = D[di], d; cJSON *in1, *in2, *in3, *a, *b, *c, *p, *mp; char *ptr, *exp, *ta, *tb, *tc; size_t n = 0; const char *what = shape == 0 ? "arrays" : shape == 1 ? "objects" : "arrays and objects";
        al_case_begin(); VD.cases++; deep_util_cases++;
        if (!VD_TRY()) { al_in_call = 0; viol("*", "utilities on a document nested %d deep (%s): memory fault", depth, what); continue; }
        al_in_call = 1;
        a = deep_doc(depth, shape, 1, &in1); b = deep_doc(depth, shape, 1, &in2); c = deep_doc(depth, shape, 2, &in3);
        exp = (char*)malloc((size_t)depth * 2 + 3);
        for (d = 0; d < depth; d++) { int obj = shape == 1 || (shape == 2 && (d & 1)); exp[n++] = '/'; exp[n++] = obj ? 'a' : '0'; } exp[n] = 0;
        ptr = cJSONUtils_FindPointerFromObjectTo(a, in1);
        if (!ptr || strcmp(ptr, exp)) viol("C15", "the pointer to the innermost value of a document nested %d deep (%s) is %s", depth, what, ptr ? "not the RFC 6901 pointer" : "NULL");
        if (cJSONUtils_GetPointerCaseSensitive(a, exp) != in1) viol("C15", "the RFC 6901 pointer to the innermost value of a document nested %d deep (%s) does not resolve to it", depth, what);
        cJSON_free(ptr);
        p = cJSONUtils_GeneratePatchesCaseSensitive(a, b);
        if (!p || !cJSON_IsArray(p) || p->child) viol("C17", "two equal documents nested %d deep (%s): the generated patch is %s", depth, what, p ? "not empty" : "NULL");
        cJSON_Delete(p);
        p = cJSONUtils_GeneratePatchesCaseSensitive(a, c); tc = cJSON_PrintUnformatted(c);
        if (!p || cJSONUtils_ApplyPatchesCaseSensitive(a, p) != 0 || !(ta = cJSON_PrintUnformatted(a)) || strcmp(ta, tc)) { viol("C17 C16", "documents nested %d deep (%s) that differ in the innermost value: the generated patch does not transform one into the other", depth, what); ta = NULL; }
        cJSON_free(ta); cJSON_Delete(p);
        mp = cJSONUtils_GenerateMergePatchCaseSensitive(b, c);
        if (!mp) viol("C18", "documents nested %d deep (%s) that differ in the innermost value: no merge patch is generated", depth, what);
        else { cJSON *bb = cJSON_Duplicate(b, 1), *r = cJSONUtils_MergePatchCaseSensitive(bb, mp); tb = r ? cJSON_PrintUnformatted(r) : NULL;
            if (!tb || strcmp(tb, tc)) viol("C18", "documents nested %d deep (%s): applying the generated merge patch does not give the target", depth, what);
            cJSON_free(tb); cJSON_Delete(r); cJSON_Delete(mp); }
        if (shape == 1) { mp = cJSONUtils_GenerateMergePatchCaseSensitive(c, c); if (mp) { viol("C18", "equal documents nested %d deep (objects): a merge patch is generated where none is needed", depth); cJSON_Delete(mp); } }
        {   /* test + replace on the leaf of b */
            cJSON *patch = cJSON_CreateArray(), *o1 = cJSON_CreateObject(), *o2 = cJSON_CreateObject(); int st;
            cJSON_AddStringToObject(o1, "op", "test"); cJSON_AddStringToObject(o1, "path", exp); cJSON_AddNumberToObject(o1, "value", 1);
            cJSON_AddStringToObject(o2, "op", "replace"); cJSON_AddStringToObject(o2, "path", exp); cJSON_AddNumberToObject(o2, "value", 2);
            cJSON_AddItemToArray(patch, o1); cJSON_AddItemToArray(patch, o2);
            st = cJSONUtils_ApplyPatchesCaseSensitive(b, patch); tb = cJSON_PrintUnformatted(b);
            if (st != 0 || !tb || strcmp(tb, tc)) viol("C16", "test + replace of the innermost value of a document nested %d deep (%s): status %d or another result", depth, what, st);
            cJSON_free(tb); cJSON_Delete(patch);
        }
        /* Compare on the deep documents: arrays only (the object case of cJSON_Compare does 2^depth work) */
        if (shape == 0) {
            if (!cJSON_Compare(a, c, 1) || !cJSON_Compare(c, a, 0)) viol("C12", "two equal documents nested %d deep (arrays) do not compare equal", depth);
            in3->valuedouble = 3; in3->valueint = 3;
            if (cJSON_Compare(a, c, 1) || cJSON_Compare(c, a, 0)) viol("C12", "documents nested %d deep (arrays) that differ in the innermost value compare equal", depth);
        }
        cJSON_free(tc); free(exp); cJSON_Delete(a); cJSON_Delete(b); cJSON_Delete(c);
        al_in_call = 0;
        if (al_live != 0 || al_bad_free) viol("C07 C15 C16 C17 C18", "utilities on a document nested %d deep (%s): %ld block(s) remain allocated, %ld invalid releases", depth, what, al_live, al_bad_free);
        VD_END(); vd_tick();
    }
    {   /* trees deeper than the parser accepts but within CJSON_CIRCULAR_LIMIT, built with the API: a duplicate is an equal, independent copy (C11);
         * the merge-patch application refuses a patch value it cannot duplicate without releasing anything twice (C07) */
        static const int DD[] = { 1001, 5000 }; size_t di2;
        for (di2 = 0; di2 < 2; di2++) {
            cJSON *in, *src, *copy; char *t1, *t2; int depth = DD[di2];
            if (depth >= CJSON_CIRCULAR_LIMIT) continue;
            al_case_begin(); VD.cases++; deep_util_cases++;
            if (!VD_TRY()) { al_in_call = 0; viol("*", "duplicating a tree nested %d deep: memory fault", depth); continue; }
            al_in_call = 1;
            src = deep_doc(depth, 0, 1, &in); copy = cJSON_Duplicate(src, 1);
            if (!copy) viol("C11", "cJSON_Duplicate returned NULL for a tree nested %d deep (CJSON_CIRCULAR_LIMIT is %d)", depth, CJSON_CIRCULAR_LIMIT);
            else {
                if (!cJSON_Compare(src, copy, 1) || !cJSON_Compare(copy, src, 0)) viol("C11 C12", "the duplicate of a tree nested %d deep does not compare equal to it", depth);
                t1 = cJSON_PrintUnformatted(src); t2 = cJSON_PrintUnformatted(copy);
                if (!t1 || !t2 || strcmp(t1, t2)) viol("C11", "the duplicate of a tree nested %d deep prints differently", depth);
                cJSON_free(t1); cJSON_free(t2);
            }
            cJSON_Delete(src); cJSON_Delete(copy);
            al_in_call = 0;
            if (al_live != 0 || al_bad_free) viol("C07 C11", "duplicating a tree nested %d deep: %ld block(s) remain allocated, %ld invalid releases", depth, al_live, al_bad_free);
            VD_END(); vd_tick();
        }
        {   /* {"a":{"b":1},"k":2} merged with {"a":{"b":<array nested beyond CJSON_CIRCULAR_LIMIT>}} */
            cJSON *in, *target, *patch, *pa, *res, *deep; int depth = CJSON_CIRCULAR_LIMIT + 5;
            al_case_begin(); VD.cases++; deep_util_cases++;
            if (VD_TRY()) {
                al_in_call = 1;
                target = cJSON_CreateObject(); pa = cJSON_AddObjectToObject(target, "a"); cJSON_AddNumberToObject(pa, "b", 1); cJSON_AddNumberToObject(target, "k", 2);
                patch = cJSON_CreateObject(); pa = cJSON_AddObjectToObject(patch, "a"); deep = deep_doc(depth, 0, 1, &in); cJSON_AddItemToObject(pa, "b", deep);
                res = cJSONUtils_MergePatchCaseSensitive(target, patch);      /* refused (NULL) or merged: either way every block has exactly one owner */
                cJSON_Delete(res); cJSON_Delete(patch);
                al_in_call = 0;
                if (al_bad_free) viol("C07 C18 C14", "a merge patch holding an array nested beyond CJSON_CIRCULAR_LIMIT: %ld block(s) released twice or never allocated", al_bad_free);
                VD_END();
            } else { al_in_call = 0; viol("*", "a merge patch holding an array nested beyond CJSON_CIRCULAR_LIMIT: memory fault"); }
            vd_tick();
        }
    }
#endif
}
int vd_utils_main(int argc, char **argv)
{
    char *line = NULL; size_t cap = 0; ssize_t len; const char *stats = NULL; int k; char extra[400]; cJSON_Hooks hooks;
    for (k = 0; k < argc; k++) { if (!strcmp(argv[k], "--stats") && k + 1 < argc) stats = argv[k + 1]; if (!strcmp(argv[k], "--record") && k + 1 < argc) recf = fopen(argv[k + 1], "w"); }
    hooks.malloc_fn = al_malloc; hooks.free_fn = al_free; cJSON_InitHooks(&hooks);
    vd_install_handlers();
    VD.curline = (char*)"# driver-built cases: deep documents through the utilities"; deep_util_run(); VD.curline = NULL;
    while ((len = getline(&line, &cap, stdin)) > 0 || (len < 0 && errno == EINTR && !feof(stdin) && (clearerr(stdin), 1))) {
        char *copy; jv *v; const char *kind;
        if (len <= 0) continue;
        if (line[0] != '"') { if (VD.passthrough) fputs(line, VD.passthrough); continue; }
        copy = strdup(line); jv_reset(); v = jv_parse_line(line);
        if (!v || v->t != JV_ARR || v->n < 2 || jv_at(v, 0)->t != JV_STR) { if (VD.passthrough) fputs(copy, VD.passthrough); free(copy); continue; }
        VD.curline = copy; VD.cases++; kind = jv_at(v, 0)->s;
        al_case_begin(); al_reuse = (int)((vd_salt() >> 3) & 1);      /* half of the cases on a LIFO allocator: a released block comes back at once */
        if (VD_TRY()) {
            al_in_call = 1;
            if (kind[0] == 'G') do_lookup(v); else if (kind[0] == 'F') do_find(v); else if (kind[0] == 'A') do_apply(v);
            else if (kind[0] == 'M') do_merge(v); else if (kind[0] == 'P') do_pair(v);
            else if (kind[0] == 'D') do_dup(v); else if (kind[0] == 'S') do_sort(v); else if (kind[0] == 'Z') do_scale_sort(v); else if (kind[0] == 'Q') do_keyquery(v); else if (kind[0] == 'W') do_foldsort(v);
            else { fprintf(stderr, "vdrv: unknown line kind %s\n", kind); return 2; }
            al_in_call = 0; VD_END();
        } else { al_in_call = 0; viol("*", "memory fault or hang in a utility call (line kind %s, address %p)", kind, (void*)vd_fault_addr); }
        VD.nontrivial++;
        if (VD.samplef && VD.samples < 6 && (VD.cases % 613 == 5)) { fputs(copy, VD.samplef); VD.samples++; }
        vd_tick(); VD.curline = NULL; free(copy);
    }
    if (recf) fclose(recf);
    snprintf(extra, sizeof(extra), "\"lookups\": %ld, \"constructions\": %ld, \"patch_applications\": %ld, \"must_succeed\": %ld, \"must_fail\": %ld, \"open\": %ld, \"merges\": %ld, \"generation_pairs\": %ld, \"recorded_outputs\": %ld, \"pairs_with_shared_containers\": %ld, \"other_property_violations\": %ld",
             by[0], by[1], by[2], by[3], by[4], by[5], by[6], by[7], rec_n, shared_pairs, VD.by_kind[0]);
    if (stats) vd_write_stats(stats, extra);
    return VD.violations ? 1 : 0;
}
