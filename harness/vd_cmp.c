/* cmp mode (C12): every pair emitted by MC_Compare.tla is compared with cJSON_Compare in both argument orders,
 * with ownership flags toggled, and the arguments must come back untouched. */
#include "value.h"

static void set_flags(cJSON *t, int flags, int depth)
{
    cJSON *c;
    if (!t || depth > 1000) return;
    t->type |= flags & cJSON_IsReference;
    if (t->string) t->type |= flags & cJSON_StringIsConst;
    for (c = t->child; c; c = c->next) set_flags(c, flags, depth + 1);
}
static void clear_flags(cJSON *t, int depth)
{
    cJSON *c;
    if (!t || depth > 1000) return;
    for (c = t->child; c; c = c->next) clear_flags(c, depth + 1);
    t->type &= 0xFF;
}

/* ["K", fold]: two objects whose single keys differ in one byte: equal under case-insensitive comparison exactly when the bytes fold to the
 * same byte, under case-sensitive comparison exactly when they are the same byte; the same for lookups by name */
static long fold_pairs;
static void do_fold(const jv *v)
{
    const jv *t = jv_at(v, 1); unsigned fold[256], b1, b2; cJSON *a, *b; char ka[8] = "x?y", kb[8] = "x?y";
    if (!t || t->n != 255) return;
    for (b1 = 1; b1 <= 255; b1++) fold[b1] = (unsigned)jv_int(t->e[b1 - 1]);
    al_case_begin();
    a = cJSON_CreateObject(); b = cJSON_CreateObject(); cJSON_AddItemToObjectCS(a, ka, cJSON_CreateNumber(1)); cJSON_AddItemToObjectCS(b, kb, cJSON_CreateNumber(1));
    if (!VD_TRY()) { vd_violation("memory fault while comparing keys that differ in one byte"); return; }
    for (b1 = 1; b1 <= 255; b1++) { vd_tick(); for (b2 = 1; b2 <= 255; b2++) {
        int ci, cs; ka[1] = (char)b1; kb[1] = (char)b2; fold_pairs++;
        ci = cJSON_Compare(a, b, 0) != 0; cs = cJSON_Compare(a, b, vb_truthy(1, b2)) != 0;
        if (ci != (fold[b1] == fold[b2])) { vd_violation("objects whose keys differ only in the bytes %02x / %02x compare %s case-insensitively", b1, b2, ci ? "equal" : "different"); if (VD.violations > 20) goto out; }
        if (cs != (b1 == b2)) { vd_violation("objects whose keys differ only in the bytes %02x / %02x compare %s case-sensitively", b1, b2, cs ? "equal" : "different"); if (VD.violations > 20) goto out; }
        if ((cJSON_GetObjectItem(a, kb) != NULL) != (fold[b1] == fold[b2]) || (cJSON_GetObjectItemCaseSensitive(a, kb) != NULL) != (b1 == b2)) { if (strstr("C06", VD.prop)) vd_violation("lookup of a name that differs from the key only in the bytes %02x / %02x gives the wrong answer", b1, b2); else VD.by_kind[0]++; }
    } }
out:
    VD_END();
    ka[1] = kb[1] = '?'; cJSON_Delete(a); cJSON_Delete(b);
}

/* arrays nested as deep as the parser accepts, and deeper (trees built with the API, up to what cJSON_Duplicate copies): SemEq recurses on the value
 * without any bound, so equal trees are equal and a different innermost value makes them different at every depth (C12; C11 for the duplicate) */
static void deep_compare_cases(void)
{
    static const int D[] = { 999, 1000, 1001, 5000 }; size_t k;
    for (k = 0; k < 4; k++) {
        cJSON *t[3], *leaf[3], *cur, *n, *dup; int i, d, depth = D[k];
        if (depth >= CJSON_CIRCULAR_LIMIT) continue;
        al_case_begin(); VD.cases++;
        if (!VD_TRY()) { vd_violation("comparing arrays nested %d deep: memory fault", depth); continue; }
        for (i = 0; i < 3; i++) { t[i] = cur = cJSON_CreateArray(); for (d = 1; d < depth; d++) { n = cJSON_CreateArray(); cJSON_AddItemToArray(cur, n); cur = n; } leaf[i] = cJSON_CreateNumber(i == 2 ? 2 : 1); cJSON_AddItemToArray(cur, leaf[i]); }
        if (!cJSON_Compare(t[0], t[1], 1) || !cJSON_Compare(t[1], t[0], 0)) vd_violation("two equal trees of arrays nested %d deep do not compare equal", depth);
        if (cJSON_Compare(t[0], t[2], 1) || cJSON_Compare(t[2], t[0], 0)) vd_violation("trees of arrays nested %d deep that differ in the innermost value compare equal", depth);
        dup = cJSON_Duplicate(t[0], 1);
        if (dup && !cJSON_Compare(t[0], dup, 1)) vd_violation("a duplicate of arrays nested %d deep does not compare equal to its source", depth);
        cJSON_Delete(dup);
        for (i = 0; i < 3; i++) cJSON_Delete(t[i]);
        VD_END(); vd_tick();
    }
}
int vd_cmp_main(int argc, char **argv);
int vd_cmp_main(int argc, char **argv)
{
    char *line = NULL; size_t cap = 0; ssize_t len; const char *stats = NULL; int k;
    cJSON_Hooks hooks; long eqs = 0; char extra[128];
    for (k = 0; k < argc; k++) if (!strcmp(argv[k], "--stats") && k + 1 < argc) stats = argv[k + 1];
    hooks.malloc_fn = al_malloc; hooks.free_fn = al_free; cJSON_InitHooks(&hooks);
    vd_install_handlers();
    VD.curline = (char*)"# driver-built cases: deep arrays through cJSON_Compare"; deep_compare_cases(); VD.curline = NULL;
    while ((len = getline(&line, &cap, stdin)) > 0 || (len < 0 && errno == EINTR && !feof(stdin) && (clearerr(stdin), 1))) {
        char *copy; jv *v; cJSON *a, *b; int cs, csv, exp, variant; char why[256] = "";
        if (len <= 0) continue;
        if (line[0] != '"') { if (VD.passthrough) fputs(line, VD.passthrough); continue; }
        copy = strdup(line); jv_reset(); v = jv_parse_line(line);
        if (v && v->t == JV_ARR && v->n == 2 && jv_is_str(jv_at(v, 0), "K")) { VD.curline = copy; VD.cases++; do_fold(v); VD.nontrivial++; VD.curline = NULL; free(copy); continue; }
        if (!v || v->t != JV_ARR || v->n < 5 || !jv_is_str(jv_at(v, 0), "C")) { if (VD.passthrough) fputs(copy, VD.passthrough); free(copy); continue; }
        VD.curline = copy; VD.cases++;
        al_case_begin(); cm_case_begin();
        a = vb_build(jv_at(v, 1)); b = vb_build(jv_at(v, 2)); cs = (int)jv_int(jv_at(v, 3)); exp = (int)jv_int(jv_at(v, 4));
        if (exp) eqs++;
        if (VD_TRY()) {
            for (variant = 0; variant < 6 && !why[0]; variant++) {
                uint64_t ha, hb; long live = al_live; int r1, r2;
                if (variant == 1) set_flags(a, cJSON_IsReference | cJSON_StringIsConst, 0);
                if (variant == 2) { clear_flags(a, 0); set_flags(b, cJSON_StringIsConst, 0); if ((b->type & 0xFF) == cJSON_String) b->type |= cJSON_IsReference; }
                /* array elements that were once object members keep their old key: it is not part of the value */
                if (variant == 3) { clear_flags(b, 0); vb_stale_keys(a, 0); vb_stale_keys(b, 1); }
                if (variant == 4) { vb_stale_clear(a); vb_stale_clear(b); vb_stale_keys(a, 2); }
                if (variant == 5) { vb_stale_clear(a); vb_stale_keys(a, 3); vb_stale_keys(b, 0); }
                csv = vb_truthy(cs, vd_salt() + (unsigned long)variant);
                ha = vb_hash(a, 0); hb = vb_hash(b, 0); live = al_live;
                al_in_call = 1; al_window(0);
                r1 = cJSON_Compare(a, b, csv); r2 = cJSON_Compare(b, a, csv);
                al_in_call = 0;
                if ((r1 != 0) != (exp != 0)) snprintf(why, sizeof(why), "Compare(a,b,%d) = %d, expected %d (variant %d: 1,2 ownership flags; 3-5 array elements with left-over keys)", csv, r1, exp, variant);
                else if ((r2 != 0) != (exp != 0)) snprintf(why, sizeof(why), "Compare(b,a,%d) = %d, expected %d (not symmetric; variant %d)", csv, r2, exp, variant);
                else if (ha != vb_hash(a, 0) || hb != vb_hash(b, 0)) snprintf(why, sizeof(why), "Compare modified an argument");
                else if (al_live != live || al_bad_free) snprintf(why, sizeof(why), "Compare released or leaked memory of its arguments");
            }
            if (!why[0]) {
                cJSON inv; memset(&inv, 0, sizeof(inv));
                if (cJSON_Compare(NULL, b, cs) || cJSON_Compare(a, NULL, cs) || cJSON_Compare(NULL, NULL, cs)) snprintf(why, sizeof(why), "Compare with a NULL argument returned true");
                else if (cJSON_Compare(&inv, &inv, cs) || cJSON_Compare(&inv, a, cs)) snprintf(why, sizeof(why), "Compare with an invalid item returned true");
            }
            VD_END();
        } else { al_in_call = 0; snprintf(why, sizeof(why), "memory fault or hang inside cJSON_Compare"); }
        if (why[0]) vd_violation("%s", why); else VD.nontrivial++;
        if (VD.samplef && VD.samples < 5 && (VD.cases % 4001 == 7)) { fputs(copy, VD.samplef); VD.samples++; }
        vd_tick(); VD.curline = NULL; free(copy);
    }
    snprintf(extra, sizeof(extra), "\"pairs_equal\": %ld", eqs);
    if (stats) vd_write_stats(stats, extra);
    return VD.violations ? 1 : 0;
}
