"""Which specification instances and driver modes decide which property, per tier."""
import os

# ------------------------------------------------------------------------------------------------ Tree.tla
def tree(name, N, keys, strs, nums, kinds, feats, maxfail=0, circ=2, flavour='plain', timeout=1500, constraint=None):
    r = {
        'name': name, 'module': 'MC_Tree', 'mode': 'tree', 'flavour': flavour, 'timeout': timeout,
        'view': 'View', 'invariants': ['InvWellFormed', 'InvNoLeak', 'InvLeafNoKids', 'InvEmit'],
        'constants': {
            'N': N, 'Keys': '<-Keys%d' % keys, 'KeySeq': '<-KeySeq%d' % keys, 'Strs': '<-Strs%d' % strs,
            'StrSeq': '<-StrSeq%d' % strs, 'Nums': nums, 'LeafKinds': '<-Kinds' + kinds, 'Features': '<-Feat' + feats,
            'MaxFail': maxfail, 'CircularLimit': circ, 'Emit': 'TRUE',
        },
    }
    if constraint:
        r['constraint'] = constraint
    return r


TREE_ASSUME = [
    'the projection (node fields, links, key/value bytes, ownership bits, allocator blocks) is a complete '
    'abstraction of what the library reads (DESIGN 4.2), so every pre-state is concretised directly',
    'TLC explores the specification exhaustively only within the stated constants (node slots, alphabets)',
]

PLANS = {
    'C06': {
        'quick': [tree('S3', 3, 1, 2, '{1}', 'S', 'S'), tree('K3', 3, 2, 2, '{1}', 'K', 'K')],
        'thorough': [tree('S4', 4, 1, 2, '{1}', 'S', 'S'), tree('K3', 3, 2, 2, '{1}', 'K', 'K'),
                     tree('R3', 3, 1, 2, '{1}', 'R', 'R')],
        'rule': 'every transition (state, public call, arguments) of the reachable state graph of Tree.tla within the bounds, '
                'plus every distinct state with the model\'s answers to the query API; non-trivial = the call changes the heap '
                '(T lines) or the state has a container to query (S lines); each case is distinct by construction (TLC emits '
                'each generated transition and each distinct state once)',
        'assumptions': TREE_ASSUME,
        'technique': 'TLC exhaustive exploration of Tree.tla (heap + edit API) with list-model refinement on every transition; every state and transition replayed on the real library with full heap projection compared',
        'level_text': 'All histories inside the bounds collapse into the reachable state graph of the specification; TLC checks WellFormed and the '
                      'list-model meaning of every call on every transition, and every transition and state is replayed on the real code with the whole '
                      'heap (links, keys, values, flags, allocator blocks, results, query answers) compared. Right level because the property quantifies over histories.',
        'level_note': 'bounded: node slots N<=3 (quick) / 4 (thorough), small key/value alphabets; completeness of the heap abstraction (DESIGN 4.2); TLC and the driver are trusted',
    },
}
NOT_CLAIMED = {}


def run_custom(kind, prop, run, outdir, bins, seed, V, REPO):
    raise SystemExit('check: unknown run kind %s' % kind)
