"""Which specification instances and driver modes decide which property, per tier."""
import os as _os


def owns(prop, owner):
    """does this check report an observation tagged with the property / set of properties `owner`?  VERIF_ANYPROP (false-alarm runs on
    property-preserving changes): one run reports the observations of every property its replay serves."""
    if _os.environ.get('VERIF_ANYPROP'):
        return True
    return prop in owner if isinstance(owner, (set, list, tuple)) else prop == owner

import os

# ------------------------------------------------------------------------------------------------ Tree.tla
def tree(name, N, keys, strs, nums, kinds, feats, maxfail=0, circ=2, flavour='plain', timeout=1500, constraint=None):
    r = {
        'name': name, 'module': 'MC_Tree', 'mode': 'tree', 'flavour': flavour, 'timeout': timeout,
        'view': 'View', 'invariants': ['InvWellFormed', 'InvNoLeak', 'InvLeafNoKids', 'InvEmit'],
        'constants': {
            'N': N, 'Keys': '<-Keys%d' % keys, 'KeySeq': '<-KeySeq%d' % keys, 'QKeySeq': '<-QKeySeq%d' % keys, 'Strs': '<-Strs%d' % strs,
            'StrSeq': '<-StrSeq%d' % strs, 'Nums': nums, 'LeafKinds': '<-Kinds' + kinds, 'Features': '<-Feat' + feats,
            'MaxFail': maxfail, 'CircularLimit': circ, 'Emit': 'TRUE',
        },
    }
    if constraint:
        r['constraint'] = constraint
    return r


TREE_ASSUME = [
    'the projection (node fields, links, key/value bytes, ownership bits, allocator blocks) is a complete '
    'abstraction of what the library reads (DESIGN 4.2), so every pre-state is concretised directly',
    'TLC explores the specification exhaustively only within the stated constants (node slots, alphabets)',
]

PLANS = {
    'C06': {
        'quick': [tree('S3', 3, 1, 2, '{1}', 'S', 'S'), tree('K3', 3, 2, 2, '{1}', 'K', 'K'), tree('KB3', 3, 4, 2, '{1}', 'K', 'KB'),
                  tree('RS4', 4, 1, 2, '{1}', 'S', 'RS'), tree('KL3', 3, 6, 2, '{1}', 'K', 'KB'), tree('B4', 4, 1, 2, '{1}', 'N', 'B'), tree('O3', 3, 1, 2, '{1}', 'O', 'O')],
        'thorough': [tree('S4', 4, 1, 2, '{1}', 'S', 'S'), tree('K3', 3, 2, 2, '{1}', 'K', 'K'),
                     tree('R3', 3, 1, 2, '{1}', 'R', 'R')],
        'rule': 'every transition (state, public call, arguments) of the reachable state graph of Tree.tla within the bounds, '
                'plus every distinct state with the model\'s answers to the query API; non-trivial = the call changes the heap '
                '(T lines) or the state has a container to query (S lines); each case is distinct by construction (TLC emits '
                'each generated transition and each distinct state once)',
        'assumptions': TREE_ASSUME,
        'technique': 'TLC exhaustive exploration of Tree.tla (heap + edit API) with list-model refinement on every transition; every state and transition replayed on the real library with full heap projection compared',
        'level_text': 'All histories inside the bounds collapse into the reachable state graph of the specification; TLC checks WellFormed and the '
                      'list-model meaning of every call on every transition, and every transition and state is replayed on the real code with the whole '
                      'heap (links, keys, values, flags, allocator blocks, results, query answers) compared. Right level because the property quantifies over histories.',
        'level_note': 'bounded: node slots N<=3 (quick) / 4 (thorough), small key/value alphabets; completeness of the heap abstraction (DESIGN 4.2); TLC and the driver are trusted',
    },
}
TREE_NOTE = 'bounded: node slots N<=5, small key/value alphabets, one failing request per call; completeness of the heap abstraction (DESIGN 4.2); TLC and the driver (tracking allocator, caller-memory checksums) are trusted'
TREE_RULE = ('every transition (state, public call, arguments, failing-request index) of the reachable state graph of Tree.tla within the bounds and every '
             'distinct state; after every replayed transition all caller-held roots are deleted and the allocator must be back at balance; non-trivial = the '
             'call changes the heap or the state has a container to query; cases are distinct by construction')
PLANS['C07'] = {
    'quick': [tree('O3', 3, 1, 2, '{1}', 'O', 'O'), tree('RS4', 4, 1, 2, '{1}', 'S', 'RS'), tree('RC4', 4, 1, 1, '{1}', 'AO', 'RC'), tree('OS3', 3, 7, 1, '{1}', 'K', 'OS')],
    'thorough': [tree('O3', 3, 1, 2, '{1}', 'O', 'O'), tree('RS4', 4, 1, 2, '{1}', 'S', 'RS'), tree('R3', 3, 1, 2, '{1}', 'R', 'R'),
                 tree('O3asan', 3, 1, 2, '{1}', 'O', 'O', flavour='asan'), tree('D4', 4, 1, 2, '{1}', 'SA', 'D4')],
    'rule': TREE_RULE, 'assumptions': TREE_ASSUME,
    'technique': 'TLC exploration of Tree.tla with ownership bits, reference nodes, constant and aliased keys; single-ownership and no-leak invariants; every transition replayed under an owning-census allocator with caller-memory checksums, then all roots deleted',
    'level_text': 'Ownership is a state-machine property over histories: TLC checks on every reachable state that each live block has exactly one owner reachable from a caller-held root and that borrowed memory is never owned; every transition is replayed on the real library under a census allocator (leak, double/foreign free, shared owned block, dangling owner, modified borrowed memory) and then every root is deleted and the balance must be zero.',
    'level_note': TREE_NOTE,
}
PLANS['C08'] = {
    'quick': [tree('F3', 3, 1, 2, '{1}', 'R', 'F', maxfail=9), tree('DF5', 5, 1, 1, '{1}', 'SA', 'DF', maxfail=9), tree('SV2', 2, 1, 4, '{1}', 'Str', 'SV', maxfail=3), tree('AN3', 3, 1, 2, '{1}', 'All', 'AN', maxfail=3), tree('CF3', 3, 1, 1, '{1}', 'K', 'CF', maxfail=3), tree('ODF4', 4, 1, 1, '{1}', 'O', 'ODF', maxfail=6), tree('RF4', 4, 1, 1, '{1}', 'AO', 'RF', maxfail=9)],
    'thorough': [tree('F3', 3, 1, 2, '{1}', 'R', 'F', maxfail=9), tree('DF5', 5, 1, 1, '{1}', 'SA', 'DF', maxfail=9),
                 tree('F3asan', 3, 1, 2, '{1}', 'R', 'F', maxfail=9, flavour='asan'), tree('RF5', 5, 1, 1, '{1}', 'AO', 'RF', maxfail=9)],
    'rule': TREE_RULE, 'assumptions': TREE_ASSUME,
    'technique': 'TLC enumeration of state x call x index of the refused allocation request in Tree.tla (requests listed in code order), clean-failure action property; every such transition replayed with a failing allocator and judged by "completes normally or fails with state and ledger unchanged"',
    'level_text': 'The fault quantifier (every k) is a nondeterministic parameter of each specification action, so TLC enumerates state x call x k exhaustively within the bounds and checks the clean-failure property on the specification; the same transitions are replayed on the real code with request k refused and the outcome must be the success state or the untouched pre-state with a NULL/false result.',
    'level_note': TREE_NOTE,
}
PLANS['C11'] = {
    'quick': [tree('D4', 4, 1, 2, '{1}', 'SA', 'D4'), tree('OD4', 4, 1, 1, '{1}', 'O', 'OD'),
              tree('DL5', 5, 1, 1, '{1}', 'A', 'DL', maxfail=9, circ=1, flavour='limits'), tree('RD6', 6, 1, 1, '{1}', 'A', 'RD', constraint='RDConstraint'), tree('ODF4', 4, 1, 1, '{1}', 'O', 'ODF', maxfail=6)],
    'thorough': [tree('D4', 4, 1, 2, '{1}', 'SA', 'D4'), tree('OD4', 4, 1, 1, '{1}', 'O', 'OD'), tree('ODF4', 4, 1, 1, '{1}', 'O', 'ODF', maxfail=6),
                 tree('DL5', 5, 1, 1, '{1}', 'A', 'DL', maxfail=9, circ=1, flavour='limits'),
                 tree('D4asan', 4, 1, 2, '{1}', 'SA', 'D4', flavour='asan')],
    'rule': TREE_RULE, 'assumptions': TREE_ASSUME + ['the depth-limit logic is exercised in a build with -DCJSON_CIRCULAR_LIMIT=1 (a documented #ifndef knob) against the specification constant CircularLimit = 1'],
    'technique': 'Duplicate is an action of Tree.tla (field copy, reference bit cleared, string/key copies, child loop, depth limit, failure path); TLC explores every later edit/delete history on source and copy; every transition replayed with pointer-disjointness (census) and full heap comparison; cyclic structures via an environment action',
    'level_text': 'Independence of source and copy is a property of all later histories: because Duplicate is just another transition of the heap machine, TLC explores every subsequent edit and delete on either tree and the single-ownership invariant forbids any shared owned block; every transition is replayed on the real code with the census allocator.',
    'level_note': TREE_NOTE,
}
PLANS['C19'] = {
    'quick': [tree('SORT4m', 4, 5, 2, '{1}', 'K', 'SortMin'), tree('SORT3', 3, 2, 2, '{1}', 'K', 'Sort'), tree('SORTR3', 3, 2, 1, '{1}', 'K', 'SortR'), tree('SORTCS4', 4, 2, 1, '{1}', 'K', 'SortCS')],
    'thorough': [tree('SORT4m', 4, 5, 2, '{1}', 'K', 'SortMin'), tree('SORT4', 4, 3, 2, '{1}', 'K', 'Sort'), tree('SORT5', 5, 5, 2, '{1}', 'K', 'SortMin', timeout=3000)],
    'rule': TREE_RULE, 'assumptions': TREE_ASSUME,
    'technique': 'pointer-level transcription of sort_list/sort_object in Tree.tla checked by TLC against "sorted permutation of the same nodes, idempotent, well-formed"; sort is an action of the heap machine so every later edit history is explored; all transitions replayed with full heap comparison (order among equal keys left open)',
    'level_text': 'TLC proves on every reachable object (all key sequences over the alphabet incl. duplicates and case variants, both variants) that the transcribed merge sort yields a sorted permutation of the same member nodes with intact sibling links and is idempotent, and explores all edits after a sort; the real code is driven through the same transitions and every link of the resulting heap is compared.',
    'level_note': TREE_NOTE,
}
def cmp_run(name, tier):
    return {'name': name, 'module': 'MC_Compare', 'mode': 'cmp', 'invariants': ['Reflexive'],
            'constants': {'Tier': '"%s"' % tier, 'Emit': 'TRUE'}, 'timeout': 3000}
PLANS['C12'] = {
    'quick': [cmp_run('pairsQ', 'quick'), cmp_run('pairsBig', 'big'), cmp_run('pairsNum', 'nums'), cmp_run('fold', 'fold'), cmp_run('perm4', 'perm4')],
    'thorough': [cmp_run('pairsT', 'thorough'), cmp_run('pairsBig', 'big'), cmp_run('pairsNum', 'nums'), cmp_run('fold', 'fold'), cmp_run('perm4', 'perm4')],
    'rule': 'all ordered pairs (a, b, case flag) over a finite universe of values (all scalars incl. boundary numbers, all containers of width <= 2 '
            'over them with keys a/A/b, nested containers in thorough); all pairs of all 61 catalogue numbers (bare and inside an array); all pairs of the 384 objects of four members in every order with two values; the case-folding byte table applied to all 65 025 byte pairs in a key position; very wide containers and long strings against their own variants; non-trivial = every pair (each is compared in both orders, with ownership flags toggled and with left-over keys on array elements); distinct by construction',
    'assumptions': ['objects have distinct keys (distinct after case folding when comparing case-insensitively), as the property states',
                    'number equality is tabulated in NumCatalogue (exact rational arithmetic) for a catalogue of boundary doubles'],
    'technique': 'TLC checks the transcription of cJSON_Compare against declarative semantic equality on all pairs of a value universe (plus symmetry, reflexivity); every pair replayed on the real cJSON_Compare in both orders, flags toggled, arguments fingerprinted',
    'level_text': 'C12 is a function over pairs of values; TLC enumerates all pairs of a finite universe exhaustively and proves transcription = declarative equality, and the real function is evaluated on exactly these pairs (both orders, three ownership-flag variants, NULL/invalid arguments) with results compared and arguments checked untouched.',
    'level_note': 'bounded universe (width <= 2, depth <= 2, 16 catalogue numbers incl. inf/nan/epsilon neighbours); NumEq table computed by tools/numcat.py; TLC and the driver are trusted',
}
# ------------------------------------------------------------------------------------------------ parser
def parse_run(name, U, units, depth, edits=False, flavour='plain', failinject=False, timeout=2400, extra=''):
    return {'name': name, 'module': 'MC_Parse', 'mode': 'parse', 'flavour': flavour, 'view': 'View', 'invariants': ['InvCase'],
            'constants': {'U': '"%s"' % U, 'MaxUnits': units, 'Edits': 'TRUE' if edits else 'FALSE', 'Emit': 'TRUE',
                          'MaxDepth': depth, 'NestingLimit': depth},
            'drvargs': '--numobs {outdir}/%s.numobs%s%s' % (name, ' --failinject' if failinject else '', extra), 'post': 'numobs', 'timeout': timeout}

def parse_runs(tier):
    if tier == 'quick':
        return [parse_run('tok7', 'tok', 7, 4, flavour='limits'), parse_run('nest9', 'nest', 9, 4, flavour='limits'), parse_run('nest8L2', 'nest', 8, 2, flavour='limits2'), parse_run('deepL2', 'deep', 0, 2, flavour='limits2'), parse_run('deepL4', 'deep', 0, 4, flavour='limits'),
                parse_run('str3', 'str', 3, 1000), parse_run('num6', 'num', 6, 1000),
                parse_run('lit5', 'lit', 5, 1000), parse_run('ws4', 'ws', 4, 1000), parse_run('long4', 'long', 4, 1000),
                parse_run('edit5', 'tok', 5, 1000, edits=True),
                parse_run('bigq', 'bigq', 0, 1000), parse_run('allbytes', 'allbytes', 0, 1000), parse_run('esctab', 'esctab', 0, 1000),
                parse_run('bigqdef', 'bigq', 0, 1000, extra=' --defaulthooks'), parse_run('strtable', 'strtable', 0, 1000, extra=' --numsweep 600000'), parse_run('strtabledef', 'strtable', 0, 1000, extra=' --defaulthooks'),
                parse_run('longasan', 'long', 4, 1000, flavour='asan'), parse_run('bigqasan', 'bigq', 0, 1000, flavour='asan')]
    return [parse_run('tok9', 'tok', 9, 4, flavour='limits'), parse_run('nest11', 'nest', 11, 4, flavour='limits'), parse_run('nest9L2', 'nest', 9, 2, flavour='limits2'), parse_run('deepL2', 'deep', 0, 2, flavour='limits2'), parse_run('deepL4', 'deep', 0, 4, flavour='limits'),
            parse_run('str4', 'str', 4, 1000, timeout=5000), parse_run('num8', 'num', 8, 1000),
            parse_run('lit6', 'lit', 6, 1000), parse_run('ws6', 'ws', 6, 1000), parse_run('long6', 'long', 6, 1000),
            parse_run('edit7', 'tok', 7, 1000, edits=True, timeout=5000), parse_run('tok7plain', 'tok', 7, 1000),
            parse_run('big', 'big', 0, 1000), parse_run('allbytes', 'allbytes', 0, 1000), parse_run('esctab', 'esctab', 0, 1000),
            parse_run('bigdef', 'big', 0, 1000, extra=' --defaulthooks'), parse_run('strtablefull', 'strtable', 0, 1000, extra=' --fulltable --numsweep 6000000'), parse_run('strtabledef', 'strtable', 0, 1000, extra=' --defaulthooks'),
            parse_run('longasan', 'long', 6, 1000, flavour='asan'), parse_run('bigasan', 'big', 0, 1000, flavour='asan'), parse_run('str3asan', 'str', 3, 1000, flavour='asan')]

PARSE_RULE = ('byte strings grown unit by unit (bytes or tokens) from every still-viable prefix, so the set is closed under truncation; universes: token '
              'sequences, string-literal units (every escape, boundary \\u code points, surrogates, bad hex), number characters, literal letters, BOM/whitespace '
              'bytes, 62-65 character numbers, every single-byte edit of every accepted text, large structured texts (incl. escape-dense strings); plus one case that applies the decoder\'s byte table to every string literal of 1-3 copied bytes and sweeps seeded families of number literals past the rounding oracle; each case is run through all parse entry points x '
              '{termination required (rotating non-zero ints) or not} x {exact-length buffer flush against an inaccessible page, buffer followed by junk, buffer with terminating zero}; '
              'non-trivial = every case; distinct by construction (one TLC state per text)')
PARSE_ASSUME = ['numeric values of number literals are judged by Python float() (correctly rounded, independent of glibc), not by TLC',
                'out-of-bounds reads are observed through guard pages and read-only mappings; the specification proves its own reads in bounds',
                'the nesting-limit logic is exercised in a build with -DCJSON_NESTING_LIMIT=4 (documented #ifndef knob) and at 999/1000/1001/100000 levels in the default build']
PARSE_NOTE = 'bounded text length and alphabets per universe; L1 is the declarative grammar of JsonText.tla (RFC and lenient dialects); TLC, the driver and the Python number oracle are trusted'
def parse_plan(what, tech):
    return {'quick': parse_runs('quick'), 'thorough': parse_runs('thorough'), 'rule': PARSE_RULE, 'assumptions': PARSE_ASSUME,
            'technique': tech, 'level_text': what, 'level_note': PARSE_NOTE}
PLANS['C01'] = parse_plan('Every byte string of the truncation-closed universes is evaluated by the transcription of the parser, in which every byte access is an indexed read that TLC rejects when out of bounds, and is then parsed by the real code in buffers whose first byte outside the declared length is inaccessible, in read-only memory, followed by walk/print/delete and an exact allocation census.',
                          'TLC enumerates truncation-closed byte-string universes through ParseMachine.tla (bounds of every read checked by TLC); each case replayed through all entry points on guard-page / read-only buffers with allocation census')
PLANS['C02'] = parse_plan('For every enumerated text that the declarative RFC 8259 grammar accepts (within the documented limits) TLC proves the transcription accepts it with exactly the denoted value, and the real parser must return exactly that tree from all entry points; number values are checked against a correctly rounded oracle.',
                          'TLC checks ParseMachine.tla against the declarative grammar JsonText.tla (must-accept class, exact decoded value) on enumerated universes; real parser results compared node by node, numbers against Python float()')
PLANS['C03'] = parse_plan('For every enumerated text on which even the lenient declarative grammar finds no value (and every single-byte corruption of every accepted text), TLC proves the transcription rejects it, and the real parser must return NULL from all entry points with nothing left allocated; deep nesting is run on a small stack.',
                          'TLC checks ParseMachine.tla against the lenient declarative grammar (must-reject class) on enumerated universes incl. all single-byte edits of accepted texts; real parser must reject with zero allocation balance')
PLANS['C10'] = parse_plan('The parse-end, error-position and termination clauses are asserted by TLC on the transcription for every enumerated buffer and flag, and checked on the real calls: end inside the buffer and prefix re-parses to an equal tree, termination success only before a zero byte, error pointer equal to the global one and inside the buffer, NULL after success.',
                          'TLC asserts the end/error/termination clauses on ParseMachine.tla for every enumerated buffer x flag; real calls checked for pointer bounds, prefix re-parse, termination rule, global error pointer')
# C10's failure clause (NULL result, error position stored, equal to the global one, inside the buffer) also under a refused allocation request
PLANS['C10']['quick'] = PLANS['C10']['quick'] + [parse_run('tok5fail', 'tok', 5, 1000, failinject=True)]
PLANS['C10']['thorough'] = PLANS['C10']['thorough'] + [parse_run('tok7fail', 'tok', 7, 1000, failinject=True)]
# ------------------------------------------------------------------------------------------------ printer
def print_run(name, tier, flavour='plain', failinject=False, extra=''):
    return {'name': name, 'module': 'MC_Print', 'mode': 'print', 'flavour': flavour,
            'constants': {'Tier': '"%s"' % tier, 'Emit': 'TRUE', 'MaxDepth': 1000},
            'drvargs': '--drift {outdir}/%s.drift.ndjson%s%s' % (name, ' --failinject' if failinject else '', extra), 'post': 'textcheck', 'timeout': 3000}
PRINT_RULE = ('every tree of a finite universe (all scalars incl. boundary numbers and strings with quote, backslash, control, DEL and UTF-8 bytes; all arrays/objects '
              'of width <= 2 over them with keys incl. empty/quote/newline; depth-3 chains; nested containers in thorough) x {formatted, unformatted} (formatted = rotating non-zero ints); each is printed through '
              'Print/PrintUnformatted/PrintBuffered(every prebuffer 0..len+3)/PrintPreallocated(every n 0..len+16) under both allocator configurations, every member also printed in place (with siblings); '
              'plus one case that applies the specification\'s byte-wise escape table to every string of 1-3 non-zero bytes (16.6 million in thorough, an 8.7 million subset in quick); non-trivial = every case; distinct by construction')
PRINT_ASSUME = ['number texts come from the catalogue generated with Python\'s correctly rounded formatting; the catalogue generator asserts read-back within DBL_EPSILON, exactness of integers below 10^15 and the print/parse fixed point for every catalogue number',
                'writes outside a caller buffer are observed with an inaccessible page after it and a canary area before it']
PRINT_NOTE = 'bounded tree universe and number catalogue; TLC, the driver and the catalogue generator are trusted; a text that differs from the predicted bytes is judged by round trip in the driver and is recorded for validation by the TLA+ grammar'
def print_plan(what, tech, fail=False, huge=False):
    return {'quick': [print_run('printQ', 'quick', failinject=fail), print_run('printBig', 'big', failinject=fail), print_run('escTable', 'table')] + ([print_run('printHuge', 'huge')] if huge else [print_run('printDeep', 'deep')]),
            'thorough': [print_run('printT', 'thorough', failinject=fail), print_run('escTableFull', 'table', extra=' --fulltable'), print_run('printBig', 'big', failinject=fail), print_run('printHuge', 'huge'), print_run('printQasan', 'quick', flavour='asan', failinject=fail), print_run('printBigasan', 'big', flavour='asan', failinject=fail)],
            'rule': PRINT_RULE, 'assumptions': PRINT_ASSUME, 'technique': tech, 'level_text': what, 'level_note': PRINT_NOTE}
PLANS['C04'] = print_plan('TLC proves for every tree x format x entry point x initial buffer size x growth strategy that the buffer machine yields Render(v), that Render(v) is an RFC text denoting v (so it parses back to v), and the real library is run over the same product: texts compared byte for byte, re-parsed, re-printed (fixed point), across allocator configurations.',
                          'TLC checks the printbuffer step machine (ensure/growth/update_offset, all entry points, all prebuffers, realloc or not) against declarative Render and the RFC grammar; real texts compared with the prediction, re-parsed and re-printed', huge=True)
PLANS['C05'] = print_plan('Strictness and agreement of variants are proven by TLC on Render(v) with the declarative RFC 8259 grammar (the independent strict parser) and StripWs; the real print functions must return exactly those bytes from every variant, and any other bytes are validated by the TLA+ grammar.',
                          'TLC proves Render(v) is one RFC 8259 text denoting v and StripWs(formatted) = unformatted; every real print variant must return the predicted bytes (differences validated by the TLA+ grammar), variants compared with each other')
PLANS['C09'] = print_plan('TLC runs the buffer machine with noalloc for every tree, format and n in 0..len+8 and proves that no write reaches index n, that success implies the complete terminated text, that the success threshold lies in [len+1, len+6] and is monotone; the real call is made for every n in 0..len+16 on a buffer ending at an inaccessible page.',
                          'TLC explores the noalloc buffer machine for every tree x n and checks the write high-water mark, threshold window and monotonicity; cJSON_PrintPreallocated run for every n on guard-page buffers')
# phase C: histories recorded from the real library (10 nodes, hundreds of calls) validated by Trace_Tree.tla
def tracetree(histories, steps, nodes=10):
    return {'name': 'trace%d' % nodes, 'kind': 'tracetree', 'histories': histories, 'steps': steps, 'nodes': nodes}
# phase C for the library as a whole: histories that mix tree edits with parse / print / compare / pointer / patch / merge patch / generation calls on
# one pool of nodes, validated step by step by Trace_Lib.tla (value-level calls judged on the value a node denotes); focus = the call kind that
# gets half of the value-level steps (0 parse, 3 print, 6 compare, 8 pointer, 10 apply, 12 merge, 13 generate, 15 generate merge)
def tracelib(histories, steps, focus=-1, nodes=24):
    return {'name': 'lib%d' % nodes, 'kind': 'tracetree', 'lib': True, 'focus': focus, 'histories': histories, 'steps': steps, 'nodes': nodes}
for _p in ('C06', 'C07', 'C11', 'C19'):
    PLANS[_p]['quick'] = PLANS[_p]['quick'] + [tracetree(25, 160), tracetree(10, 250, 16)]
    PLANS[_p]['thorough'] = PLANS[_p]['thorough'] + [tracetree(300, 250), tracetree(150, 400, 16), tracetree(40, 600, 24)]
    PLANS[_p]['rule'] = PLANS[_p]['rule'] + '; plus seeded random histories on the real library with up to 10 nodes (traces validated step by step by Trace_Tree.tla)'
# C08 also covers parse and print under a refused request
PLANS['C08']['quick'] = PLANS['C08']['quick'] + [parse_run('tok5fail', 'tok', 5, 1000, failinject=True), print_run('printQfail', 'quick', failinject=True),
                                                 parse_run('scalefaildef', 'strtable', 0, 1000, failinject=True, extra=' --defaulthooks'), parse_run('scalefail', 'strtable', 0, 1000, failinject=True)]
PLANS['C08']['thorough'] = PLANS['C08']['thorough'] + [parse_run('tok7fail', 'tok', 7, 1000, failinject=True), parse_run('str2fail', 'str', 2, 1000, failinject=True),
                                                       print_run('printTfail', 'thorough', failinject=True), print_run('printQfailasan', 'quick', flavour='asan', failinject=True)]
PLANS['C08']['rule'] = TREE_RULE + '; plus every parse of the token universe and every print of the print universe with each single allocation request refused in turn (both allocator configurations for printing)'
# ------------------------------------------------------------------------------------------------ minify
def min_run(name, U, maxlen, extra=''):
    r = {'name': name, 'module': 'MC_Minify', 'mode': 'minify', 'view': 'View', 'invariants': ['InvCase'],
         'constants': {'U': '"%s"' % U, 'MaxLen': maxlen, 'Emit': 'TRUE', 'MaxDepth': 1000}, 'timeout': 3000}
    if extra:
        r['drvargs'] = extra
    return r
PLANS['C13'] = {
    'quick': [min_run('bytes6', 'bytes', 6), min_run('tok4', 'tok', 4), min_run('big', 'big', 0), min_run('mtable', 'table', 0)],
    'thorough': [min_run('bytes8', 'bytes', 8), min_run('tok5', 'tok', 5), min_run('big', 'big', 0), min_run('mtablefull', 'table', 0, extra='--fulltable')],
    'rule': 'ALL strings up to the length bound over {space, newline, /, *, quote, backslash, a} (safety, and value preservation where the string is JSON with comments) and all sequences of tokens '
            '(brackets, comma, number, string literals with escaped quote / escaped backslash / blank / comment opener inside, comment openers and closers incl. /*/, whole comments); every byte value in every position of longer texts; the transparency tables of the machine applied to every 3-byte body of a line comment, a block comment and a string (27 million in quick); 1 000 - 2 000 000 adjacent comments; non-trivial = every case; distinct by construction',
    'assumptions': ['accesses beyond the terminator are observed by placing the terminator on the last accessible byte; writes before the buffer by a canary area'],
    'technique': 'TLC runs the transcribed Minify machine on every string of the universe (indexed reads, progress measure) and checks it against the declarative "remove comments and whitespace outside strings" for JSON-with-comments inputs; every case replayed in place on a guard-page buffer',
    'level_text': 'Safety is quantified over all zero-terminated strings: TLC enumerates all strings over the bytes that steer the algorithm up to a length bound, with every read of the transcription index-checked and a progress bound; for inputs that are JSON with comments the result must equal the declarative minified form (which TLC also proves to parse to the same value and to be a fixed point). The real function runs on each string with the terminator as last accessible byte.',
    'level_note': 'bounded length (6 quick / 8 thorough bytes; 4/5 tokens); L1 only constrains inputs that are JSON with comments, other outputs are compared with the transcription and counted as drift',
}
# ------------------------------------------------------------------------------------------------ hooks
HOOKS_PROOF = {'name': 'hooksproof', 'kind': 'tlaps', 'files': ['HooksCore.tla', 'proof/HooksProof.tla'], 'theorems': ['InitOK', 'Step', 'Safety', 'Invariance']}
PLANS['C14'] = {
    'quick': [{'name': 'hooks', 'module': 'Hooks', 'mode': 'hooks', 'invariants': ['NoLibc', 'ReallocOnlyDefault', 'Counterpart', 'Routed', 'Restores'], 'properties': ['RefinesCore'],
               'constants': {'MaxHeld': 2, 'Emit': 'TRUE'}, 'timeout': 600},
              print_run('printQ14', 'quick', failinject=True), parse_run('bigq14', 'bigq', 0, 1000), tree('S3h', 3, 1, 2, '{1}', 'S', 'S'), tree('O3h', 3, 1, 2, '{1}', 'O', 'O'), tree('SV2h', 2, 1, 4, '{1}', 'Str', 'SV', maxfail=3), tree('CF3h', 3, 1, 1, '{1}', 'K', 'CF', maxfail=3), HOOKS_PROOF],
    'thorough': [{'name': 'hooks', 'module': 'Hooks', 'mode': 'hooks', 'invariants': ['NoLibc', 'ReallocOnlyDefault', 'Counterpart', 'Routed', 'Restores'], 'properties': ['RefinesCore'],
                  'constants': {'MaxHeld': 3, 'Emit': 'TRUE'}, 'timeout': 600},
                 print_run('printT14', 'thorough', failinject=True), tree('O3h', 3, 1, 2, '{1}', 'O', 'O'), HOOKS_PROOF],
    'rule': 'every transition of Hooks.tla: hook configuration (default / both custom / only malloc / only free / struct with NULL members / NULL) x call class '
            '(tree-building and editing incl. all utilities, printing with buffer growth and trimming, values held across calls, release) ; plus the print universe with every allocation request refused; '
            'non-trivial = the call makes allocator requests; distinct by construction',
    'assumptions': ['direct uses of malloc/free/realloc by library code are made visible by renaming the undefined symbols of the library objects (objcopy), no source change',
                    'hooks are exchanged only while the library holds no memory (documented condition)'],
    'technique': 'TLC explores Hooks.tla (InitHooks selection logic x call classes x held objects) with routing invariants; each transition replayed with tagging user hooks and redirected libc symbols, every request attributed to one of them',
    'level_text': 'C14 quantifies over histories x configurations: the specification makes every library call a bag of allocator events routed through the hook triple that InitHooks selects, TLC checks the routing invariants in all reachable states, and the real library is driven through every transition while each malloc/free/realloc it issues is attributed either to the installed user functions or to the C library entry points.',
    'level_note': 'call classes are representative bundles of API calls (every allocating code path of cJSON.c and cJSON_Utils.c is in one of them); TLC and the driver are trusted',
}
# ------------------------------------------------------------------------------------------------ RFC utilities
def ptr_run(name, maxlen):
    return {'name': name, 'module': 'MC_Pointer', 'mode': 'utils', 'invariants': ['InvCase'], 'constants': {'MaxLen': maxlen, 'Emit': 'TRUE'}, 'timeout': 3000}
def patch_run(name, mode, tier, record=False):
    r = {'name': name, 'module': 'MC_Patch', 'mode': 'utils', 'constants': {'Mode': '"%s"' % mode, 'Tier': '"%s"' % tier, 'Emit': 'TRUE'}, 'timeout': 3000}
    if record:
        r['drvargs'] = '--record {outdir}/%s.records.ndjson' % name
        r['post'] = 'utilcheck'
    return r
UTIL_ASSUME = ['objects have distinct keys, as the properties state', 'number values are catalogue ids (two distinct numbers suffice for these properties)']
UTIL_NOTE = 'bounded document/patch universes; the RFC evaluators of Pointer.tla / Patch.tla are the oracle; TLC and the driver are trusted'

# C07 quantifies over histories of ALL public calls: the utilities must balance the allocator too
def big_run(name, mode, circ=10000, limitcases=False, flavour='plain', scale='{65535, 65536, 70001, 1048579}'):
    r = {'name': name, 'module': 'MC_Big', 'mode': 'utils', 'flavour': flavour, 'timeout': 3000,
         'constants': {'Mode': '"%s"' % mode, 'Emit': 'TRUE', 'CircLimit': circ, 'WithLimitCases': 'TRUE' if limitcases else 'FALSE', 'ScaleSizes': scale}}
    if mode == 'sort':
        r['drvargs'] = '--record {outdir}/%s.records.ndjson' % name
        r['post'] = 'utilcheck'
    return r
def _c07_utils():
    PLANS['C07']['quick'] = PLANS['C07']['quick'] + [patch_run('pairs07', 'pairs', 'thorough'), patch_run('apply07', 'apply', 'thorough'), patch_run('merge07', 'merge', 'thorough'), print_run('escTable07', 'table')]
    PLANS['C07']['thorough'] = PLANS['C07']['thorough'] + [patch_run('pairs07', 'pairs', 'deep'), patch_run('apply07', 'apply', 'deep'), patch_run('merge07', 'merge', 'deep'), print_run('escTable07', 'table', extra=' --fulltable')]
    PLANS['C07']['rule'] += '; plus every patch application, merge and patch generation of the utility universes under the census allocator'
_c07_utils()
# beyond the small scopes: deep / wide trees for Duplicate, long member lists for sorting (MC_Big.tla)
PLANS['C11']['quick'] = PLANS['C11']['quick'] + [big_run('dupbig', 'dup'), big_run('dupL2', 'dup', circ=2, limitcases=True, flavour='limits2')]
PLANS['C11']['thorough'] = PLANS['C11']['thorough'] + [big_run('dupbig', 'dup'), {**big_run('dupbigasan', 'dup'), 'flavour': 'asan'}, big_run('dupL2', 'dup', circ=2, limitcases=True, flavour='limits2'),
                                                       big_run('dupLimit', 'dup', limitcases=True)]
PLANS['C19']['quick'] = PLANS['C19']['quick'] + [big_run('sortbig', 'sort')]
PLANS['C19']['thorough'] = PLANS['C19']['thorough'] + [big_run('sortbig', 'sort', scale='{65535, 65536, 70001, 1048575, 1048579}')]
PLANS['C15'] = {
    'quick': [ptr_run('ptr5', 5)], 'thorough': [ptr_run('ptr6', 6)],
    'rule': 'documents with keys "", a, A, /, ~, 0, 1, 01, a/b, m~n, ~1, -, nested arrays (one of 12 elements) x ALL pointer strings up to the length bound over {/ ~ 0 1 2 a A -} plus long-index and escaped pointers; all (document, node) pairs for construction; non-trivial = every case; distinct by construction',
    'assumptions': UTIL_ASSUME,
    'technique': 'TLC checks the transcription of get_item_from_pointer/decode_array_index/compare_pointers against declarative RFC 6901 resolution for every (document, pointer string), and pointer construction against the canonical pointer; every case replayed with node identity compared',
    'level_text': 'C15 is a function of (document, string): TLC enumerates every pointer string over the steering alphabet up to a length bound for a set of documents chosen for their keys, proves transcription = RFC 6901, and the real lookup must return exactly the designated node (identity), the real construction exactly the canonical escaped pointer.',
    'level_note': UTIL_NOTE,
}
PLANS['C16'] = {
    'quick': [patch_run('applyQ', 'apply', 'thorough')], 'thorough': [patch_run('applyT', 'apply', 'deep'), {**patch_run('applyQasan', 'apply', 'thorough'), 'flavour': 'asan'}],
    'rule': 'documents x patches: every operation (6 ops x every valid pointer into the document and one token beyond incl. "-", indices, leading zero, escaped keys, root x values x from-pointers), the empty patch, two-operation patches (thorough), and values that are not patches (wrong types, missing op/path/value/from); non-trivial = every case; distinct by construction',
    'assumptions': UTIL_ASSUME + ['operations with a syntactically invalid pointer and removal of the whole document are left open, as the property states'],
    'technique': 'TLC evaluates the declarative RFC 6902 evaluator (Patch.tla) on every (document, patch) of the universe, giving must-succeed-with-result / must-fail / open; real ApplyPatchesCaseSensitive compared (status, document as key/value sets), patched document edited and released under the census allocator',
    'level_text': 'TLC computes the RFC 6902 verdict and result for every (document, patch) in a generated universe that contains every operation at every location of the document and just beyond it, plus malformed patch values; the real function must agree on success and on the resulting value, must fail where the RFC fails, and for every value whatsoever must leave a well-formed, editable, fully releasable document.',
    'level_note': UTIL_NOTE,
}
PLANS['C17'] = {
    'quick': [patch_run('pairsQ', 'pairs', 'thorough', record=True)], 'thorough': [patch_run('pairsT', 'pairs', 'deep', record=True)],
    'rule': 'all ordered pairs (from, to) over a universe of scalars, arrays and objects (keys a, A, a/b, m~n; unsorted 3-member objects); every generated patch is recorded and judged by TLC with the RFC 6902 evaluator; non-trivial = every pair; distinct by construction',
    'assumptions': UTIL_ASSUME,
    'technique': 'TLC enumerates all (from, to) pairs; the real GeneratePatchesCaseSensitive output is recorded and validated by TLC against the declarative RFC 6902 evaluator (ApplyRFC(from, patch) = to, empty iff equal); also applied with the library; inputs re-checked and edited afterwards',
    'level_text': 'The form of a generated patch is free, so the property is checked in the reverse direction: for all pairs of a finite universe the patch the real library generates is recorded and TLC evaluates the declarative RFC 6902 semantics on it; input documents are compared in value, walked and edited afterwards.',
    'level_note': UTIL_NOTE,
}
PLANS['C18'] = {
    'quick': [patch_run('mergeQ', 'merge', 'thorough'), patch_run('pairsQ', 'pairs', 'thorough', record=True)],
    'thorough': [patch_run('mergeT', 'merge', 'deep'), patch_run('pairsT', 'pairs', 'deep', record=True)],
    'rule': 'all (target, patch) pairs over scalars, arrays and objects with null members and case-variant keys (application, result fully determined) and all (from, to) pairs (generation, recorded merge patches judged by TLC with the RFC 7396 evaluator); non-trivial = every pair; distinct by construction',
    'assumptions': UTIL_ASSUME,
    'technique': 'TLC evaluates declarative RFC 7396 MergeRFC for all (target, patch) pairs, real MergePatchCaseSensitive compared; generated merge patches recorded and validated by TLC (MergeRFC(from, p) = to)',
    'level_text': 'Application is a total function of (target, patch): TLC computes the RFC 7396 result for all pairs and the real result must be equal as a value; generation is checked in the reverse direction by letting TLC apply every recorded merge patch with the declarative evaluator.',
    'level_note': UTIL_NOTE,
}
NOT_CLAIMED = {}


def numobs_check(prop, path, outdir):
    """number literals the real parser converted: lexeme, bits of valuedouble, valueint -- judged by Python's float()"""
    import struct
    out = []
    try:
        lines = open(path).read().splitlines()
    except OSError:
        return ''
    bad = 0
    for l in lines:
        lex, bits, iv = l.split('\t')
        d = float(lex)
        eb = struct.unpack('<Q', struct.pack('<d', d))[0]
        ei = 2147483647 if d >= 2147483647 else (-2147483648 if d <= -2147483648 else int(d))
        if eb != int(bits, 16) or ei != int(iv):
            bad += 1
            if owns(prop, 'C02') and bad <= 5:
                rp = os.path.join(outdir, 'C02-num-%s-%d.case' % (os.path.basename(path).split('.')[0], bad))
                open(rp, 'w').write('# number literal %s: parsed to bits %s valueint %s, correctly rounded is %016x valueint %d\n' % (lex, bits, iv, eb, ei))
                out.append('VIOLATION property=C02 replay=%s :: number literal %s decoded to %s (int %s), expected %016x (int %d)' % (rp, lex, bits, iv, eb, ei))
    return '\n'.join(out) + ('\n' if out else '')


def textcheck(prop, path, outdir, V):
    """texts the real printer produced that differ from the prediction: judged by the TLA+ RFC grammar (MC_TextCheck.tla)"""
    import subprocess, re, shutil
    try:
        lines = [l for l in open(path).read().splitlines() if l.strip()]
    except OSError:
        return '', 0
    if not lines:
        return '', 0
    tag = os.path.basename(path).split('.')[0]       # runs of one check execute side by side: own scratch names per run
    cfg = os.path.join(outdir, 'textcheck-%s.cfg' % tag)
    open(cfg, 'w').write('CONSTANTS\n MaxDepth = 1000\nINIT Init\nNEXT Next\nINVARIANTS Judge\nCHECK_DEADLOCK FALSE\n')
    md = os.path.join(outdir, 'md-textcheck-' + tag)
    env = dict(os.environ); env['DRIFT'] = path
    r = subprocess.run('cd %s/spec && timeout 1200 ../tools/tlc.sh -workers 1 -metadir %s -config %s MC_TextCheck.tla 2>&1' % (V, md, cfg), shell=True, env=env, capture_output=True, text=True)
    shutil.rmtree(md, ignore_errors=True)
    out, n = [], 0
    for m in re.finditer(r'<<"V", (\d+), (TRUE|FALSE)>>', r.stdout):
        n += 1
        if m.group(2) == 'FALSE' and owns(prop, 'C05') and len(out) < 10:
            i = int(m.group(1))
            rp = os.path.join(outdir, 'C05-text-%s-%d.case' % (tag, i))
            open(rp, 'w').write(lines[i - 1] + '\n')
            out.append('VIOLATION property=C05 replay=%s :: printed text is not one RFC 8259 text denoting the tree (judged by the TLA+ grammar): %s' % (rp, lines[i - 1][:200]))
    if n != len(lines):
        out.append('check: MACHINERY FAILURE textcheck judged %d of %d texts: %s' % (n, len(lines), r.stdout[-300:]))
    return '\n'.join(out) + ('\n' if out else ''), n


def utilcheck(prop, path, outdir, V):
    """patches / merge patches the real library generated: judged by the RFC evaluators of Patch.tla (MC_UtilCheck.tla)"""
    import subprocess, re, shutil, json
    try:
        lines = [l for l in open(path).read().splitlines() if l.strip()]
    except OSError:
        return '', 0
    if not lines:
        return '', 0
    tag = os.path.basename(path).split('.')[0]
    cfg = os.path.join(outdir, 'utilcheck-%s.cfg' % tag)
    open(cfg, 'w').write('INIT Init\nNEXT Next\nINVARIANTS Judge\nCHECK_DEADLOCK FALSE\n')
    md = os.path.join(outdir, 'md-utilcheck-' + tag)
    env = dict(os.environ); env['RECORDS'] = path
    r = subprocess.run('cd %s/spec && timeout 2400 ../tools/tlc.sh -workers 1 -metadir %s -config %s MC_UtilCheck.tla 2>&1' % (V, md, cfg), shell=True, env=env, capture_output=True, text=True)
    shutil.rmtree(md, ignore_errors=True)
    out, n = [], 0
    for m in re.finditer(r'<<"V", (\d+), (TRUE|FALSE)>>', r.stdout):
        n += 1
        if m.group(2) == 'FALSE':
            i = int(m.group(1)); rec = json.loads(lines[i - 1]); owner = {'patch': 'C17', 'merge': 'C18', 'sort': 'C19'}.get(rec['k'], 'C17')
            if owns(prop, owner) and len(out) < 10:
                rp = os.path.join(outdir, '%s-record-%s-%d.case' % (owner, tag, i))
                open(rp, 'w').write(lines[i - 1] + '\n')
                out.append(('VIOLATION property=%s replay=%s :: the recorded order after sorting is not a sorted permutation of the members (judged by MC_UtilCheck): %s' % (owner, rp, lines[i - 1][:300])) if owner == 'C19' else 'VIOLATION property=%s replay=%s :: the generated %s does not transform from into to under the declarative RFC evaluator: %s' % (owner, rp, 'patch' if owner == 'C17' else 'merge patch', lines[i - 1][:240]))
    if n != len(lines):
        out.append('check: MACHINERY FAILURE utilcheck judged %d of %d records: %s' % (n, len(lines), r.stdout[-300:]))
    return '\n'.join(out) + ('\n' if out else ''), n


DOC_CLASSES = '{"parse_ok", "parse_fail", "print", "create_edit", "compare", "duplicate", "minify", "patch_utils", "delete"}'
EXCLUDED_FUNCS = {'cJSON_GetErrorPtr', 'cJSON_InitHooks', 'cJSON_Version'}
KNOWN_OBJECTS = {'global_error', 'global_error.0', 'global_error.1', 'global_hooks', 'cJSON_Version.version'}


def run_c20(prop, run, outdir, bins, seed, V, REPO):
    """C20: (A) TLC on Threads.tla incl. negative controls, (B1) footprint table vs object code, (B2) ThreadSanitizer runs"""
    import subprocess, shutil, json, re, time
    t0 = time.time()
    out, res = [], {'name': run['name'], 'stdout': '', 'stderr': '', 'rc': 0, 'states': 0, 'transitions': 0, 'stats': {}, 'samples': [], 'tlc_error': None}

    def tlc(name, nthreads, maxcalls, admitted, emit):
        cfg = os.path.join(outdir, name + '.cfg')
        open(cfg, 'w').write('CONSTANTS\n NThreads = %d\n MaxCalls = %d\n Admitted = %s\n Emit = %s\nINIT Init\nNEXT Next\nINVARIANTS OnlyErrorRaces NonInterference\nCHECK_DEADLOCK FALSE\n'
                             % (nthreads, maxcalls, admitted, 'TRUE' if emit else 'FALSE'))
        md = os.path.join(outdir, 'md-' + name)
        r = subprocess.run('cd %s/spec && timeout 900 ../tools/tlc.sh -workers 16 -metadir %s -config %s Threads.tla 2>&1' % (V, md, cfg), shell=True, capture_output=True, text=True)
        shutil.rmtree(md, ignore_errors=True)
        open(os.path.join(outdir, name + '.tlc.out'), 'w').write(r.stdout)
        return r.stdout

    # (A) all interleavings of the documented call classes
    table = None
    for name, nt, mc in run['models']:
        o = tlc(name, nt, mc, DOC_CLASSES, True)
        m = None
        for m in re.finditer(r'(\d+) states generated, (\d+) distinct states found', o):
            pass
        if 'No error has been found' not in o or not m:
            res['tlc_error'] = '%s: %s' % (name, '; '.join(l for l in o.splitlines() if l.startswith('Error'))[:300] or 'TLC did not complete')
            return res
        res['transitions'] += int(m.group(1)); res['states'] += int(m.group(2))
        for l in o.splitlines():
            if l.startswith('"{') and 'table' in l:
                table = json.loads(json.loads(l))
    if table is None:
        res['tlc_error'] = 'footprint table not emitted'
        return res
    # negative controls: admitting an excluded call must break the invariants (otherwise the model is vacuous)
    for name, adm in (('neg_get_error', '{"parse_ok", "get_error"}'), ('neg_init_hooks', '{"print", "init_hooks"}'), ('neg_version', '{"version"}')):
        o = tlc(name, 2, 2, adm, False)
        if 'is violated' not in o:
            res['tlc_error'] = 'negative control %s did not produce a counterexample' % name
            return res
    # (B1) the table against the object code
    fp = subprocess.run([os.path.join(V, 'tools', 'footprint.py')], capture_output=True, text=True, env=dict(os.environ, VERIF_REPO=REPO))
    if fp.returncode != 0:
        res['tlc_error'] = 'footprint extraction failed: ' + fp.stderr[-300:]
        return res
    ext = json.loads(fp.stdout)
    open(os.path.join(outdir, 'footprint.json'), 'w').write(fp.stdout)
    nviol, checked, drift = 0, 0, 0
    suspects = {}
    def violation(msg, detail):
        nonlocal nviol
        nviol += 1
        rp = os.path.join(outdir, 'C20-static-%d.case' % nviol)
        open(rp, 'w').write('# %s\n%s\n' % (msg, json.dumps(detail)))
        out.append('VIOLATION property=C20 replay=%s :: %s' % (rp, msg))
    allowed_w = lambda f, sym: sym.startswith('global_error') and 'Parse' in f
    for f, accs in sorted(ext['functions'].items()):
        if f in EXCLUDED_FUNCS:
            continue
        checked += 1
        for sym, kinds in accs.items():
            if sym == 'global_hooks':
                if set(kinds) - {'r'}:
                    violation('%s stores to or exposes global_hooks (access kinds "%s"); only cJSON_InitHooks may write it' % (f, kinds), {f: accs})
            elif sym.startswith('global_error'):
                if 'r' in kinds or 'a' in kinds or ('w' in kinds and not allowed_w(f, sym)):
                    violation('%s accesses the global error position with kinds "%s" (only parse entry points write it, only cJSON_GetErrorPtr reads it)' % (f, kinds), {f: accs})
            elif 'w' in kinds:
                violation('%s writes the writable static object %s, which is shared by all threads' % (f, sym), {f: accs, 'object': ext['inventory'].get(sym)})
            elif 'a' in kinds:
                suspects.setdefault(sym, f)      # address taken: a store through the pointer cannot be seen statically; decided by the ThreadSanitizer runs
            else:
                drift += 1
    # C library functions reachable from the public functions: process-wide state behind a libc call is invisible to the object-level footprint.
    # POSIX lists the functions that need not be thread-safe; a call to one of them (setlocale around strtod, strtok, rand, static-buffer
    # conversions ...) makes calls on private data interfere.  localeconv is on that list too and is what ENABLE_LOCALES uses: the property's own
    # condition "the locale is not changed" covers it.
    MT_UNSAFE = {'setlocale', 'uselocale', 'strtok', 'rand', 'srand', 'random', 'srandom', 'drand48', 'lrand48', 'mrand48', 'srand48', 'asctime', 'ctime', 'gmtime', 'localtime', 'strerror',
                 'strsignal', 'getenv', 'putenv', 'setenv', 'unsetenv', 'tmpnam', 'tempnam', 'ecvt', 'fcvt', 'gcvt', 'l64a', 'ttyname', 'getlogin', 'basename', 'dirname', 'readdir',
                 'getpwnam', 'getpwuid', 'gethostbyname', 'inet_ntoa', 'nl_langinfo', 'wcstombs', 'mbstowcs', 'mblen', 'mbtowc', 'wctomb', 'catgets', 'crypt', 'dbm_fetch', 'lgamma',
                 'lgammaf', 'lgammal', 'getopt', 'hsearch', 'hcreate', 'hdestroy', 'signal', 'atexit', 'exit', 'abort', 'system', 'fcloseall', 'tzset'}
    ext_all = set()
    for f, xs in sorted(ext.get('externals', {}).items()):
        if f in EXCLUDED_FUNCS:
            continue
        ext_all |= set(xs)
        for x in xs:
            if x.lstrip('_') in MT_UNSAFE or x in MT_UNSAFE:
                violation('%s reaches the C library function %s, which works on process-wide state (not safe while other threads use the library)' % (f, x), {f: xs})
    res.setdefault('stats', {})
    newobjs = sorted(set(ext['inventory']) - KNOWN_OBJECTS)
    res['samples'] = ['writable static objects: %s' % sorted(ext['inventory']), 'C library functions reached: %s' % sorted(ext_all), 'cJSON_Parse: %s' % ext['functions'].get('cJSON_Parse'),
                      'cJSON_Print: %s' % ext['functions'].get('cJSON_Print'), 'cJSONUtils_SortObject: %s' % ext['functions'].get('cJSONUtils_SortObject')]
    # (B2) real schedules under ThreadSanitizer
    drv = bins['tsan']
    races_other, races_err, tsan_sets = 0, 0, 0
    for k, (nt, sets, rounds) in enumerate(run['tsan']):
        stats = os.path.join(outdir, 'tsan%d.stats.json' % k)
        env = dict(os.environ, TSAN_OPTIONS='halt_on_error=0 exitcode=0 report_signal_unsafe=0')
        r = subprocess.run('timeout 1200 %s threads --prop C20 --out %s --stats %s --samples %s --seed %d --threads %d --sets %d --rounds %d' %
                           (drv, outdir, stats, os.path.join(outdir, 'tsan%d.samples' % k), seed + k, nt, sets, rounds), shell=True, capture_output=True, text=True, env=env)
        for l in r.stdout.splitlines():
            if l.startswith('VIOLATION'):
                out.append(l)
        try:
            st = json.load(open(stats)); tsan_sets += st.get('cases', 0)
        except (OSError, ValueError):
            res['tlc_error'] = 'threads driver failed: rc=%s %s' % (r.returncode, r.stderr[-300:])
            return res
        try:
            res['samples'] += open(os.path.join(outdir, 'tsan%d.samples' % k)).read().splitlines()[:2]
        except OSError:
            pass
        reports = r.stderr.split('WARNING: ThreadSanitizer: ')[1:]
        for rep in reports:
            m = re.search(r"Location is global '([^']+)'", rep)
            if m and m.group(1) in suspects:
                violation('ThreadSanitizer: unsynchronised conflicting accesses to the static object %s, whose address %s takes' % (m.group(1), suspects[m.group(1)]), {'object': m.group(1)})
                suspects.pop(m.group(1))
            if m and m.group(1).startswith('global_error'):
                races_err += 1
            else:
                races_other += 1
                if races_other <= 3:
                    nviol += 1
                    rp = os.path.join(outdir, 'C20-tsan-%d.case' % nviol)
                    open(rp, 'w').write(rep[:4000])
                    loc = m.group(1) if m else (re.search(r'Location is ([^\n]+)', rep).group(1) if re.search(r'Location is ([^\n]+)', rep) else 'unknown location')
                    out.append('VIOLATION property=C20 replay=%s :: ThreadSanitizer: unsynchronised conflicting accesses to %s (not the documented global error position)' % (rp, loc))
    res['stats'] = {'cases': checked + tsan_sets, 'nontrivial': checked + tsan_sets, 'drift': drift, 'violations': len(out), 'public_functions_checked': checked,
                    'new_writable_objects': newobjs, 'address_taken_only_objects': sorted(suspects), 'tsan_program_sets': tsan_sets, 'tsan_reports_on_global_error': races_err, 'tsan_reports_elsewhere': races_other}
    res['stdout'] = '\n'.join(out) + ('\n' if out else '')
    res['wall_s'] = round(time.time() - t0, 1)
    return res


def run_tracetree(prop, run, outdir, bins, seed, V, REPO):
    """phase C for the tree machine: random histories recorded from the real library, validated by Trace_Tree.tla"""
    import subprocess, shutil, json, re, time
    t0 = time.time()
    res = {'name': run['name'], 'stdout': '', 'stderr': '', 'rc': 0, 'states': 0, 'transitions': 0, 'stats': {}, 'samples': [], 'tlc_error': None, 'traces': 0}
    trace = os.path.join(outdir, run['name'] + '.ndjson'); stats = os.path.join(outdir, run['name'] + '.stats.json')
    lib = run.get('lib')
    r = subprocess.run('%s treerand --prop %s --out %s --trace %s --stats %s --histories %d --steps %d --seed %d --nodes %d%s' %
                       (bins['plain'], 'C' if _os.environ.get('VERIF_ANYPROP') else prop, outdir, trace, stats, run['histories'], run['steps'], seed, run.get('nodes', 10),
                        (' --lib --focus %d' % run.get('focus', -1)) if lib else ''), shell=True, capture_output=True, text=True)
    out = [l for l in r.stdout.splitlines() if l.startswith('VIOLATION')]
    try:
        res['stats'] = json.load(open(stats))
    except (OSError, ValueError):
        if not out:
            res['tlc_error'] = 'history recorder failed rc=%s %s' % (r.returncode, r.stderr[-300:])
            return res
    cfg = os.path.join(outdir, run['name'] + '.cfg')
    open(cfg, 'w').write('CONSTANTS\n N = %d\n Keys = {}\n Strs = {}\n Nums = {}\n CircularLimit = 10000\nINIT Init\nNEXT Next\nINVARIANTS InvWellFormed InvNoLeak Accepted\nCHECK_DEADLOCK FALSE\n' % run.get('nodes', 10))
    verdict = None
    for attempt in range(2):       # a rejection is reported only if a second validation repeats it
        md = os.path.join(outdir, 'md-' + run['name'])
        t = subprocess.run('cd %s/spec && timeout 1800 ../tools/tlc.sh -workers 1 -metadir %s -config %s %s.tla 2>&1' % (V, md, cfg, 'Trace_Lib' if lib else 'Trace_Tree'), shell=True, capture_output=True, text=True, env=dict(os.environ, TRACE=trace))
        shutil.rmtree(md, ignore_errors=True)
        open(os.path.join(outdir, run['name'] + '.tlc.out'), 'w').write(t.stdout)
        m = re.search(r'<<"TRACE-(ACCEPTED|REJECTED)", (\d+)>>', t.stdout)
        inv = re.search(r'Invariant (InvWellFormed|InvNoLeak) is violated', t.stdout)
        ms = None
        for ms in re.finditer(r'(\d+) states generated, (\d+) distinct states found', t.stdout):
            pass
        if ms:
            res['transitions'], res['states'] = int(ms.group(1)), int(ms.group(2))
        if m and m.group(1) == 'ACCEPTED' and not inv:
            verdict = ('ok', int(m.group(2))); break
        if inv:
            lm = None
            for lm in re.finditer(r'/\\ l = (\d+)', t.stdout):
                pass
            verdict = ('inv', inv.group(1), (int(lm.group(1)) - 1) if lm else None)
        elif m:
            verdict = ('rej', int(m.group(2)))
        else:
            verdict = ('err', t.stdout[-300:])
    if lib:       # vacuity control: how many value-level calls had a verdict determined by the specification
        det = {}
        for m2 in re.finditer(r'<<"D", "(\w+)", (TRUE|FALSE)>>', t.stdout):
            d = det.setdefault(m2.group(1), [0, 0]); d[0 if m2.group(2) == 'TRUE' else 1] += 1
        res['stats']['value_calls_determined_open'] = {k: '%d:%d' % (v[0] // 2, v[1] // 2) for k, v in sorted(det.items())}
    if verdict[0] == 'ok':
        res['traces'] = res['stats'].get('histories', 0)
        try:
            res['samples'] = open(trace).read().splitlines()[1:3]
        except OSError:
            pass
    elif verdict[0] == 'err':
        res['tlc_error'] = 'trace validation did not finish: ' + str(verdict[1])
    else:
        lines = open(trace).read().splitlines()
        idx = verdict[1] if verdict[0] == 'rej' else (verdict[2] if len(verdict) > 2 else None)
        ev = lines[idx - 1] if idx else ''
        act = ''
        try:
            act = json.loads(ev)['a'][0]
        except Exception:
            pass
        owners = {'C06'} | ({'C11'} if act == 'Duplicate' else set()) | ({'C19'} if act == 'SortObject' else set()) | ({'C07'} if verdict[0] == 'inv' else set())
        if lib:
            OWN = {'Parse': {'C01', 'C02', 'C03'}, 'Print': {'C04', 'C05'}, 'Compare': {'C12'}, 'GetPointer': {'C15'}, 'FindPointer': {'C15'}, 'ApplyPatches': {'C16'},
                   'MergePatch': {'C18'}, 'GenerateMergePatch': {'C18'}, 'GeneratePatches': {'C17'}}
            if act in OWN:
                owners = set(OWN[act]) | ({'C07'} if verdict[0] == 'inv' else set()) | ({'C19'} if verdict[0] == 'inv' and act in ('ApplyPatches', 'GeneratePatches', 'GenerateMergePatch') else set())
            # an edit that follows a utility call in the same history also belongs to that utility's property (C19 second clause, C16-C18 "can still be edited")
            k = (idx or 1) - 2
            while k >= 0 and '"e":"Reset"' not in lines[k]:
                try:
                    pa = json.loads(lines[k])['a'][0]
                except Exception:
                    pa = ''
                if pa in ('ApplyPatches', 'GeneratePatches', 'GenerateMergePatch', 'SortObject'):
                    owners.add('C19')
                owners |= OWN.get(pa, set()) & {'C16', 'C17', 'C18'}
                k -= 1
        if owns(prop, owners) or (verdict[0] == 'inv' and not lib):
            rp = os.path.join(outdir, '%s-%s.case' % (prop, run['name']))
            open(rp, 'w').write('# trace %s, event %s\n%s\n' % (trace, idx, ev))
            what = ('invariant %s fails on the recorded heap' % verdict[1]) if verdict[0] == 'inv' else ('recorded step %d (%s) is not a step of Tree.tla: post-heap / result / query answers differ from every admitted outcome' % (idx, act))
            out.append('VIOLATION property=%s replay=%s :: history recorded from the real library: %s' % (prop, rp, what))
    res['stdout'] = '\n'.join(out) + ('\n' if out else '')
    res['wall_s'] = round(time.time() - t0, 1)
    return res


def run_tlaps(prop, run, outdir, bins, seed, V, REPO):
    """phase A, unbounded: the TLAPS proof of spec/proof/<module>.tla is re-checked (all obligations, no fingerprint cache)"""
    import subprocess, re, time, shutil
    t0 = time.time()
    res = {'name': run['name'], 'stdout': '', 'stderr': '', 'rc': 0, 'states': 0, 'transitions': 0, 'stats': {}, 'samples': [], 'tlc_error': None}
    work = os.path.join(outdir, 'tlaps-' + run['name'])
    shutil.rmtree(work, ignore_errors=True); os.makedirs(work)
    for f in run['files']:
        shutil.copy(os.path.join(V, 'spec', f), work)
    r = subprocess.run('cd %s && timeout 900 tlapm --nofp --threads 4 %s 2>&1' % (work, os.path.basename(run['files'][-1])), shell=True, capture_output=True, text=True)
    open(os.path.join(outdir, run['name'] + '.tlapm.out'), 'w').write(r.stdout)
    m = re.search(r'All (\d+) obligations? proved', r.stdout)
    if m:
        res['stats'] = {'cases': 0, 'obligations_proved': int(m.group(1)), 'theorems': run.get('theorems', [])}
        res['samples'] = ['TLAPS: all %s obligations of %s proved (%s)' % (m.group(1), run['files'][-1], ', '.join(run.get('theorems', [])))]
    else:
        res['tlc_error'] = 'TLAPS proof of %s not re-established: %s' % (run['files'][-1], ' '.join(r.stdout.split())[-300:])
    shutil.rmtree(work, ignore_errors=True)
    res['wall_s'] = round(time.time() - t0, 1)
    return res


def run_custom(kind, prop, run, outdir, bins, seed, V, REPO):
    if kind == 'tlaps':
        return run_tlaps(prop, run, outdir, bins, seed, V, REPO)
    if kind == 'tracetree':
        return run_tracetree(prop, run, outdir, bins, seed, V, REPO)
    if kind == 'c20':
        return run_c20(prop, run, outdir, bins, seed, V, REPO)
    raise SystemExit('check: unknown run kind %s' % kind)


PLANS['C20'] = {
    'quick': [{'name': 'threads', 'kind': 'c20', 'flavour': 'tsan', 'models': [('t2c2', 2, 2), ('t3c1', 3, 1)], 'tsan': [(4, 12, 60)]}],
    'thorough': [{'name': 'threads', 'kind': 'c20', 'flavour': 'tsan', 'models': [('t2c2', 2, 2), ('t3c1', 3, 1), ('t3c2', 3, 2)], 'tsan': [(4, 40, 300), (8, 40, 200), (2, 40, 500)]}],
    'rule': 'all interleavings of 2-3 threads x 1-2 calls over the nine documented call classes in Threads.tla (plus three negative controls that must fail); every public function of both translation units '
            'checked against the footprint table by static extraction from the object code; seeded sets of per-thread call sequences run concurrently under ThreadSanitizer and compared with their solo results; '
            'non-trivial = every public function / every program set',
    'assumptions': ['stores through a pointer to a static object whose address is taken are not attributed statically (the only address-taken object is cJSON_Version.version, in an excluded call); ThreadSanitizer covers them dynamically',
                    'thread-private trees and buffers cannot conflict and are not modelled', 'ThreadSanitizer samples real schedules; the exhaustive part is the interleaving model'],
    'technique': 'TLC explores all interleavings of per-call global-access footprints (Threads.tla) with race and non-interference invariants and negative controls; the footprint table is bound to the object code by static extraction (writable-object inventory, loads/stores per public function closed over the call graph) and by ThreadSanitizer runs compared with solo results',
    'level_text': 'Schedules are explored exhaustively on the model: every interleaving of the atomic global accesses of up to 3 threads, where the only admissible conflict is on the documented error position and every read a result can depend on returns the initial value. What makes the model speak about the code is the footprint table, extracted from the object files of the current tree for every public function; real multi-threaded runs under ThreadSanitizer add dynamic evidence.',
    'level_note': 'model: 2-3 threads x 1-2 calls; static extraction classifies x86-64 loads/stores by operand position (clang -O1); TSan runs are a sample of schedules',
}

for _p in ('C17', 'C18'):       # generation sorts both documents: the scale directives of the sort cases also run generation on 65 535 - 70 001 members
    PLANS[_p]['quick'] = PLANS[_p]['quick'] + [big_run('sortscale', 'sort', scale='{65535, 65536, 70001}')]
    PLANS[_p]['thorough'] = PLANS[_p]['thorough'] + [big_run('sortscale', 'sort', scale='{65535, 65536, 70001}')]
PLANS['C06']['quick'] = PLANS['C06']['quick'] + [big_run('keylens', 'keys')]
PLANS['C06']['thorough'] = PLANS['C06']['thorough'] + [big_run('keylens', 'keys')]

# phase C, library level (Trace_Lib.tla)
for _p, _f in (('C02', 0), ('C03', 0), ('C04', 3), ('C05', 3), ('C06', -1), ('C07', -1), ('C11', -1), ('C12', 6), ('C15', 8), ('C16', 10), ('C17', 13), ('C18', 12), ('C19', 13)):
    PLANS[_p]['quick'] = PLANS[_p]['quick'] + [tracelib(8, 250, _f)]
    PLANS[_p]['thorough'] = PLANS[_p]['thorough'] + [tracelib(120, 400, _f), tracelib(40, 500, _f, 32)]
    PLANS[_p]['technique'] = PLANS[_p]['technique'] + '; histories of the library as a whole recorded from the real code and validated step by step by TLC against Trace_Lib.tla'
    PLANS[_p]['rule'] = PLANS[_p]['rule'] + '; plus seeded random histories of the library as a whole (tree edits mixed with parse, print, compare, pointer, patch, merge-patch and generation calls on one pool of 24 nodes), every step validated by Trace_Lib.tla'
# ---------------------------------------------------------------------------------------------- what the later tiers add (texts for evidence)
PLANS['C15']['rule'] += '; index tokens congruent to small indices modulo 2^32 / 2^64; ladders of tokens of 256 - 2048 raw bytes with the escape at the cut under object, array and scalar parents; every lookup and construction repeated with left-over keys on array elements and with ownership flags'
PLANS['C16']['rule'] += '; index tokens beyond 2^31 / 2^32 / 2^64 and member names of 256 / 300 bytes in every path position; test values that repeat a member name; every case also on documents and patches built with constant keys and string references'
PLANS['C17']['rule'] += '; tolerance-boundary numbers, booleans / null with differently filled payload fields, high-byte next to ASCII names, nested unsorted objects, documents whose nested containers are held through reference nodes, pointers longer than 4 KiB, generated patches applied after both inputs were deleted; generation on objects of 65 535 - 70 001 members'
PLANS['C18']['rule'] += '; tolerance-boundary numbers, targets and patches with ownership flags, generated merge patches applied after both inputs were deleted; generation on objects of 65 535 - 70 001 members'
PLANS['C19']['rule'] += '; key lists of up to 1 021 members, word lists whose first difference is one of case only (orders judged by MC_UtilCheck); 65 535 - 1 048 579 members in four key orders'
PLANS['C11']['rule'] += '; deep and wide trees, nesting around CJSON_CIRCULAR_LIMIT along the first, second and last child (limits2 build), trees whose nested containers are held through up to 99 nested reference nodes with the innermost reference doubled'
PLANS['C06']['rule'] += '; lookups by names of every length 1-70 and around 128 ... 1024 with a longer key in front'
PLANS['C07']['rule'] += '; strings of up to 1.7 MB and one value of 360 MB printed into a tracked caller buffer'
PLANS['C08']['rule'] += '; string literals of up to 9000 escape units with every request refused in turn under both allocator configurations'
