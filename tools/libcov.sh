#!/bin/bash
# libcov.sh [Cnn...]: development aid, not a registered check.  Runs the quick checks with the library compiled
# for source-based coverage and reports which lines / branches of cJSON.c and cJSON_Utils.c no replay executed.
# (Vacuity control on the implementation side: a branch never taken is behaviour no check has looked at.)
V=$(cd "$(dirname "$0")/.." && pwd); cd $V
C=$V/out/cov; rm -rf $C; mkdir -p $C
export VERIF_COV=1 LLVM_PROFILE_FILE="$C/%p-%m.profraw" VERIF_RUNS_KEEP=1
for p in ${@:-C01 C04 C06 C07 C08 C09 C11 C12 C13 C14 C15 C16 C17 C18 C19 C20}; do
  VERIF_NOEVIDENCE=1 ./tools/check $p quick | tail -1
done
llvm-profdata merge -sparse $C/*.profraw -o $C/all.profdata
B=$V/out/bin/vdrv-plain
llvm-cov report $B -instr-profile=$C/all.profdata /repo/cJSON.c /repo/cJSON_Utils.c | tee $C/report.txt
llvm-cov show $B -instr-profile=$C/all.profdata -show-branches=count -show-line-counts-or-regions /repo/cJSON.c /repo/cJSON_Utils.c > $C/show.txt
rm -f $C/*.profraw
echo "annotated source: $C/show.txt"
