#!/bin/bash
# build.sh <flavour> : builds /verif/out/bin/vdrv-<flavour> from /verif/harness and the CURRENT working tree
# of the repository (VERIF_REPO, default /repo).  Flavours: plain, asan, tsan, limits (nesting 4 / circular 1), limits2 (nesting 2 / circular 2).
set -e
FL=${1:-plain}
REPO=${VERIF_REPO:-/repo}
V=$(cd "$(dirname "$0")/.." && pwd)
O=${VERIF_OBJ:-$V/out/build-$FL}
mkdir -p $O $V/out/bin
CC=clang
COMMON="-g -I$REPO -I$V/harness -DENABLE_LOCALES -Wno-unused-function"
case $FL in
  plain)  CF="-O1 $COMMON" ;;
  asan)   CF="-O1 -fsanitize=address,undefined -fno-sanitize=pointer-overflow -fno-sanitize-recover=undefined -fno-omit-frame-pointer -DVD_ASAN $COMMON" ;;
  tsan)   CF="-O1 -fsanitize=thread -fno-omit-frame-pointer -DVD_TSAN $COMMON" ;;
  limits) CF="-O1 -DCJSON_NESTING_LIMIT=4 -DCJSON_CIRCULAR_LIMIT=1 -DVD_LIMITS $COMMON" ;;
  limits2) CF="-O1 -DCJSON_NESTING_LIMIT=2 -DCJSON_CIRCULAR_LIMIT=2 -DVD_LIMITS $COMMON" ;;
  *) echo "unknown flavour $FL" >&2; exit 2 ;;
esac
rm -f $O/*.o $O/fail
# the library itself: unoptimised in the plain flavour, like the project's default build (recursion depth, store-to-load forwarding
# and the like then are what the source says); optimised in the sanitizer and limit flavours
LF="$CF"; [ "$FL" = plain ] && LF="-O0 $COMMON"
# development aid (tools/libcov.sh): which lines and branches of the library the replays execute
LK=""; [ -n "$VERIF_COV" ] && { LF="$LF -fprofile-instr-generate -fcoverage-mapping"; LK="-fprofile-instr-generate"; }
for f in $REPO/cJSON.c $REPO/cJSON_Utils.c; do
  ( $CC $LF -c $f -o $O/$(basename $f .c).o || touch $O/fail ) &
done
for f in $V/harness/*.c; do
  ( $CC $CF -c $f -o $O/h_$(basename $f .c).o || touch $O/fail ) &
done
wait
[ -e $O/fail ] && { echo "build.sh: compilation failed" >&2; exit 1; }
# direct uses of the C allocator by library code become visible to the driver (no source change)
for o in cJSON cJSON_Utils; do
  [ "$FL" = tsan ] && continue     # the threads mode uses the C allocator as it is (the tracking allocator is single-threaded)
  objcopy --redefine-sym malloc=vd_libc_malloc --redefine-sym free=vd_libc_free --redefine-sym realloc=vd_libc_realloc $O/$o.o
done
$CC $CF $LK $O/*.o -lm -lpthread -o ${VERIF_BIN:-$V/out/bin/vdrv-$FL}
