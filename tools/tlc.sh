#!/bin/sh
# TLC with a thread stack large enough for the recursive operators of the specification on long inputs
# (the plain `tlc` wrapper on PATH uses the JVM default of 1 MB; JAVA_TOOL_OPTIONS does not reach the main thread).
exec java -Xss${VERIF_XSS:-512m} -XX:+UseParallelGC -cp /opt/veriftools/tla/tla2tools.jar:/opt/veriftools/tla/CommunityModules-deps.jar tlc2.TLC "$@"
