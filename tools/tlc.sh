#!/bin/sh
# TLC with a thread stack large enough for the recursive operators of the specification on long inputs
# (the plain `tlc` wrapper on PATH uses the JVM default of 1 MB; JAVA_TOOL_OPTIONS does not reach the main thread).
# The heap is capped (VERIF_XMX, default 4g): the largest instance keeps a few million fingerprints; without a cap every JVM sizes its
# fingerprint set from a quarter of the machine's memory (measured: ~6 GB resident each, three of them side by side per check).
exec java -Xss${VERIF_XSS:-512m} -Xmx${VERIF_XMX:-4g} -XX:+UseParallelGC -cp /opt/veriftools/tla/tla2tools.jar:/opt/veriftools/tla/CommunityModules-deps.jar tlc2.TLC "$@"
