#!/bin/bash
# seedconfirm.sh <Cnn> <a|b>: independently confirms a seeded change produced by a sub-agent, in the scratch
# worktree /tmp/wt/<Cnn>: patch applies to HEAD, library builds, all existing tests pass (22 with Utils enabled,
# which include the 19 baseline tests), the demonstration FAILS with the change and PASSES without it.
# On success copies patch.diff, demo.c and a meta.json into /verif/seeded/<Cnn>-<x>/.
ID=$1; X=$2; SR=${SEEDROOT:-/tmp/seed}; S=$SR/$ID/$X; WT=${WTROOT:-/tmp/wt}/$ID; OUTNAME=${OUTNAME:-$ID-$X}
[ -f $S/patch.diff ] || { echo "$ID-$X: no patch"; exit 2; }
cd $WT && git checkout -q -- . && git apply --check $S/patch.diff || { echo "$ID-$X: patch does not apply"; exit 1; }
git apply $S/patch.diff
cmake -G Ninja -S $WT -B $WT/_build -DENABLE_CJSON_UTILS=ON -DENABLE_CJSON_TEST=ON -DENABLE_LOCALES=ON -DCMAKE_C_FLAGS=-Wno-error >/dev/null 2>&1
cmake --build $WT/_build >/dev/null 2>&1 || { echo "$ID-$X: build fails with change"; git checkout -q -- .; exit 1; }
T=$(ctest --test-dir $WT/_build -j8 2>&1 | grep "tests passed")
case "$T" in "100% tests passed, 0 tests failed out of 22") ;; *) echo "$ID-$X: tests: $T"; git checkout -q -- .; exit 1;; esac
SAN=""; grep -q "fsanitize=thread" $S/notes.json && SAN="-fsanitize=thread -g"; grep -q "fsanitize=address" $S/notes.json && SAN="-fsanitize=address,undefined -g"
cc $SAN -I$WT $S/demo.c $WT/cJSON.c $WT/cJSON_Utils.c -lm -lpthread -o $S/demo.bin 2>/dev/null || { echo "$ID-$X: demo does not compile"; git checkout -q -- .; exit 1; }
timeout 120 $S/demo.bin >$S/with.out 2>&1; RCW=$?
git checkout -q -- .
cc $SAN -I$WT $S/demo.c $WT/cJSON.c $WT/cJSON_Utils.c -lm -lpthread -o $S/demo.bin 2>/dev/null
timeout 120 $S/demo.bin >$S/without.out 2>&1; RCO=$?
rm -f $S/demo.bin
if [ $RCW -ne 0 ] && [ $RCO -eq 0 ]; then
  D=/verif/seeded/$OUTNAME; mkdir -p $D; cp $S/patch.diff $S/demo.c $D/
  python3 - $ID $X "$SAN" $RCW $S $D <<'PY'
import json,sys
ID,X,SAN,RCW,S,D=sys.argv[1:7]
n=json.load(open(S+'/notes.json'))
meta={'property':ID,'summary':n.get('summary'),'needs':n.get('needs'),'origin':'fresh sub-agent given only the property text and a scratch worktree',
 'confirmed':{'patch_applies_to':'repository HEAD (with the fix: commits)','tests_with_change':'22/22 pass (19 baseline + 3 Utils tests, ENABLE_CJSON_UTILS=ON)',
   'demo_build':'cc %s -I<repo> demo.c <repo>/cJSON.c <repo>/cJSON_Utils.c -lm -lpthread'%SAN,'demo_with_change':'exit %s (FAIL)'%RCW,'demo_without_change':'exit 0 (PASS)'},
 'caught_by':None}
json.dump(meta,open(D+'/meta.json','w'),indent=1)
PY
  echo "$ID-$X: CONFIRMED (with=$RCW without=$RCO)"
else
  echo "$ID-$X: NOT confirmed (with=$RCW without=$RCO)"; exit 1
fi
