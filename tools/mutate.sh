#!/bin/bash
# mutate.sh <patch.diff> <Cnn> [tier]: applies the patch to a scratch copy of the repository (outside /repo and
# /verif), runs the property's check against that copy (VERIF_REPO), prints the outcome, removes the copy.
# exit 0 if the check reported a violation (mutant caught), 1 if it passed (missed), 2 on machinery failure.
V=$(cd "$(dirname "$0")/.." && pwd)
P=$(readlink -f "$1"); ID=$2; TIER=${3:-quick}
D=$(mktemp -d /tmp/vmut.XXXXXX)
cp /repo/cJSON.c /repo/cJSON.h /repo/cJSON_Utils.c /repo/cJSON_Utils.h $D/
( cd $D && git init -q . && ( git apply --unsafe-paths "$P" 2>/dev/null || patch -s -p1 --fuzz=3 < "$P" ) ) || { echo "patch does not apply"; rm -rf $D; exit 2; }
ON=${VERIF_OUTNAME:-$ID-mut-$$}       # own scratch directory under out/: mutation runs of one property can run side by side
OUT=$(cd $V && VERIF_OUTNAME=$ON VERIF_REPO=$D ./tools/check $ID $TIER 2>&1); RC=$?
echo "$OUT" | grep -E "^VIOLATION|^check:|^KNOWN" | head -${MUT_LINES:-4}
rm -rf $D $V/out/$ON
case $RC in 1) echo "CAUGHT $ID $(basename $(dirname $P))/$(basename $P)"; exit 0;; 0) echo "MISSED $ID $P"; exit 1;; *) echo "MACHINERY rc=$RC"; exit 2;; esac
