#!/bin/bash
# One-time set-up after a fresh restore (offline): syntax-check every specification module and pre-build the
# driver once so that a broken installation shows here and not in the first check.
set -e
cd "$(dirname "$0")/.."
mkdir -p out evidence
for m in spec/*.tla; do
  ( cd spec && tla-sany "$(basename $m)" > ../out/sany-$(basename $m .tla).log 2>&1 ) || { echo "SANY failed on $m"; cat out/sany-$(basename $m .tla).log | tail -20; exit 1; }
done
./tools/build.sh plain
echo "setup ok"
