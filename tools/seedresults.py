#!/usr/bin/env python3
"""Regenerates seeded/RESULTS.md from the meta.json files written by seedconfirm.sh / seedrun.sh."""
import json, os, glob
V = os.path.dirname(os.path.dirname(os.path.abspath(__file__)))
rows = []
for d in sorted(glob.glob(os.path.join(V, 'seeded', 'C*-*'))):
    try:
        m = json.load(open(os.path.join(d, 'meta.json')))
    except OSError:
        continue
    c = m.get('caught_by') or {}
    def cell(x, n):
        return (x or '').replace('|', '/').replace('\n', ' ')[:n]
    rows.append('| %s | %s | %s | %s |' % (os.path.basename(d), cell(m.get('summary'), 120), c.get('result', 'not run'), cell(c.get('first_violation'), 120)))
head = '''# Seeded changes against the quick checks

`Cnn-a`, `Cnn-b`: round 1 (sub-agent saw only the property text). `Cnn-h`: round 2 (additionally told to hide from small exhaustive scopes).
`Cnn-r`: round 3 (told to hide from small AND large scopes: feature combinations, history, argument relations, values).
`Cnn-t` / `C20-u`: round 5 (scale and length thresholds); `Cnn-u` / `C12-v` / `C20-v`: round 6 (call sequences, aliasing, left-over payload, errno).
`Cnn-s`: round 4 (additionally told about the concretisation variants: truthy booleans, ownership flags, left-over keys, items in place).
`Cnn-w`, `Cnn-y`: round 7 (two cooperating sites or a multi-step history / a fault or unusual input at one point). `Cnn-k`, `Cnn-m`: round 8 (an indirect change outside
the anchored functions - helper, macro, header, other file / free choice). `Cnn-p`, `Cnn-q`: round 9 (the property text alone again: no hints, no list of used ideas). `Cnn-e`, `Cnn-f`, `Cnn-g`: round 10 (three small changes of at most six lines each). `Cnn-i`, `Cnn-j`: round 11 (small changes whose violation needs two features to meet).
Each was confirmed with tools/seedconfirm.sh (applies, 22/22 tests pass, demo fails with / passes without) and run with tools/seedrun.sh.

| id | change | result | first violation reported |
|---|---|---|---|
'''
open(os.path.join(V, 'seeded', 'RESULTS.md'), 'w').write(head + '\n'.join(rows) + '\n')
print('%d seeded changes, %d caught, %d neutralised by a repair' % (len(rows), sum(1 for r in rows if '| CAUGHT |' in r), sum(1 for r in rows if '| NEUTRALISED |' in r)) + ', %d outside every property' % sum(1 for r in rows if '| OUT-OF-SCOPE |' in r))
