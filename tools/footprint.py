#!/usr/bin/env python3
"""Static footprint extraction for C20 (binds Threads.tla's Footprint table to the object code).

Compiles cJSON.c and cJSON_Utils.c from the repository's working tree with -ffunction-sections -fdata-sections,
then reads from the object files
  * the inventory of writable static objects (symbols in .data / .bss sections, thread-local ones excluded),
  * per function: which of these objects it loads from / stores to / takes the address of, and which functions it calls
    (relocations in `objdump -dr`, classified by AT&T operand position),
and closes the accesses over the call graph for every public entry point.
Output (JSON on stdout): {"inventory": {sym: {"size": n, "unit": file}}, "functions": {public fn: {sym: "r"|"w"|"rw"|"a"...}}}
"""
import json, os, re, subprocess, sys, tempfile

REPO = os.environ.get('VERIF_REPO', '/repo')


def sh(cmd):
    return subprocess.run(cmd, shell=True, capture_output=True, text=True).stdout


# C library functions that store through their first argument
WRITERS = {'sprintf', 'snprintf', 'vsprintf', 'vsnprintf', 'strcpy', 'strncpy', 'strcat', 'strncat', 'memcpy', 'memmove', 'memset', 'stpcpy', '__sprintf_chk', '__snprintf_chk', '__strcpy_chk', '__memcpy_chk', '__memset_chk', '__strcat_chk'}


def extract(unit, tmp, opt='-O1'):
    obj = os.path.join(tmp, unit + opt + '.o')
    r = subprocess.run('clang ' + opt + ' -g0 -ffunction-sections -fdata-sections -DENABLE_LOCALES -I%s -c %s/%s.c -o %s' % (REPO, REPO, unit, obj),
                       shell=True, capture_output=True, text=True)
    if r.returncode != 0:
        sys.stderr.write(r.stderr)
        sys.exit(2)
    # sections: index -> (name, flags)
    secs = {}
    for l in sh('readelf -SW %s' % obj).splitlines():
        m = re.match(r'\s*\[\s*(\d+)\]\s+(\S+)\s+(\S+)\s+\S+\s+\S+\s+(\S+)\s+\S+\s+(\S*)', l)
        if m:
            secs[int(m.group(1))] = (m.group(2), m.group(5))
    inventory, funcs, publics = {}, set(), set()
    for l in sh('readelf -sW %s' % obj).splitlines():
        m = re.match(r'\s*\d+:\s+[0-9a-f]+\s+(\d+)\s+(\S+)\s+(\S+)\s+\S+\s+(\S+)\s+(\S+)', l)
        if not m:
            continue
        size, typ, bind, ndx, name = int(m.group(1)), m.group(2), m.group(3), m.group(4), m.group(5)
        if typ == 'FUNC':
            funcs.add(name)
            if bind == 'GLOBAL':
                publics.add(name)
        if typ == 'OBJECT' and ndx.isdigit():
            sname, flags = secs.get(int(ndx), ('', ''))
            if 'W' in flags and 'T' not in flags and (sname.startswith('.data') or sname.startswith('.bss')):
                inventory[name] = {'size': size, 'unit': unit + '.c', 'section': sname}
    # per-function accesses
    acc, calls = {}, {}
    cur, lastins = None, ''
    for l in sh('objdump -dr --no-show-raw-insn %s' % obj).splitlines():
        m = re.match(r'^[0-9a-f]+ <([^>]+)>:', l)
        if m:
            cur = m.group(1); acc.setdefault(cur, {}); calls.setdefault(cur, set()); addr_reg = {}; continue
        if cur is None:
            continue
        mi = re.match(r'^\s+[0-9a-f]+:\s+(\S.*)$', l)
        if mi and 'R_X86_64' not in l:
            lastins = mi.group(1)
            # registers that hold the address of a writable static object (for destinations handed to the C library, see WRITERS)
            mm = re.match(r'mov\s+(%r\w+),(%r\w+)\s*(#.*)?$', lastins)
            if mm:
                if mm.group(1) in addr_reg:
                    addr_reg[mm.group(2)] = addr_reg[mm.group(1)]
                else:
                    addr_reg.pop(mm.group(2), None)
            continue
        mr = re.match(r'^\s+[0-9a-f]+:\s+(R_X86_64_\S+)\s+(\S+)', l)
        if not mr:
            continue
        rel, target = mr.group(1), mr.group(2)
        sym = re.sub(r'[-+]0x[0-9a-f]+$', '', target)
        if sym.startswith('.text.') and sym[6:] in funcs:       # static functions are referenced through their section
            sym = sym[6:]
        if sym in funcs or rel in ('R_X86_64_PLT32',) and sym not in inventory:
            op = lastins.split()[0] if lastins else ''
            if op.startswith('call') or op.startswith('jmp'):
                if sym in WRITERS and addr_reg.get('%rdi'):       # sprintf(static_buffer, ...), memcpy(static_buffer, ...): a store into the object
                    d = addr_reg['%rdi']; acc[cur][d] = ''.join(sorted(set(acc[cur].get(d, '') + 'w')))
                addr_reg = {}
                calls[cur].add(sym)
            else:
                calls[cur].add(sym)      # address of a function taken (hooks): treat as a potential call
            continue
        if sym not in inventory:
            # sections may be referenced as .bss.<name> / .data.<name>
            m2 = re.match(r'\.(?:bss|data)\.(.+)$', sym)
            if m2 and m2.group(1) in inventory:
                sym = m2.group(1)
            else:
                continue
        ins = lastins
        op = ins.split()[0] if ins else ''
        operands = ins[len(op):].strip()
        kind = 'a'
        if op.startswith('lea') or (op.startswith('mov') and operands.startswith('$') and '(%rip)' not in operands and operands.split('#')[0].split(',')[-1].strip().startswith('%')):
            kind = 'a'
            dest = operands.split('#')[0].split(',')[-1].strip()
            if dest.startswith('%e'):
                dest = '%r' + dest[2:]
            addr_reg[dest] = sym
        else:
            parts = [p.strip() for p in re.split(r',(?![^()]*\))', operands)]
            memidx = [i for i, p in enumerate(parts) if '(%rip)' in p]
            if memidx:
                i = memidx[0]
                if op.startswith(('cmp', 'test')):
                    kind = 'r'
                elif i == len(parts) - 1 and len(parts) >= 2:
                    kind = 'w' if op.startswith('mov') else 'rw'      # destination operand: store (read-modify-write for arithmetic)
                    if op.startswith(('movs', 'movz')) and False:
                        kind = 'w'
                elif len(parts) == 1:
                    kind = 'rw' if op.startswith(('inc', 'dec', 'neg', 'not')) else ('r' if op.startswith(('push', 'call', 'jmp')) else 'rw')
                else:
                    kind = 'r'
        prev = acc[cur].get(sym, '')
        acc[cur][sym] = ''.join(sorted(set(prev + kind)))
    return inventory, acc, calls, publics


def main():
    with tempfile.TemporaryDirectory(prefix='vfp') as tmp:
        inv, acc, calls, pubs, defined = {}, {}, {}, set(), set()
        # unoptimised code shows every access the source makes (the project's default build has no -O); optimised code shows what
        # an optimiser may add (hoisted loads, merged stores): the footprint is the union
        for unit, opt in (('cJSON', '-O0'), ('cJSON_Utils', '-O0'), ('cJSON', '-O1'), ('cJSON_Utils', '-O1')):
            i, a, c, p = extract(unit, tmp, opt)
            inv.update(i); pubs |= p; defined |= set(a.keys())
            for k, v in a.items():
                for s2, kinds in v.items():
                    if opt == '-O0' and s2 == 'global_hooks':
                        # unoptimised code passes &global_hooks to the static helpers, whose parameter is a pointer to const: a read
                        # (what is done through a pointer is decided by the ThreadSanitizer runs, as for every address-taken object)
                        kinds = kinds.replace('a', 'r')
                    acc.setdefault(k, {})[s2] = ''.join(sorted(set(acc.get(k, {}).get(s2, '') + kinds)))
            for k, v in c.items():
                calls.setdefault(k, set()).update(v)
    out, outx = {}, {}
    for f in sorted(pubs):
        seen, stack, tot = set(), [f], {}
        while stack:
            g = stack.pop()
            if g in seen:
                continue
            seen.add(g)
            for s, k in acc.get(g, {}).items():
                tot[s] = ''.join(sorted(set(tot.get(s, '') + k)))
            stack.extend(calls.get(g, ()))
        out[f] = tot
        outx[f] = sorted(g for g in seen if g not in defined)      # functions the library does not define: the C library calls reachable from f
    json.dump({'inventory': inv, 'functions': out, 'externals': outx}, sys.stdout, indent=1, sort_keys=True)


if __name__ == '__main__':
    main()
