#!/bin/bash
# seedrun.sh [ids...]: runs the quick check of the property each seeded change breaks against a scratch copy of the
# repository with the change applied, and records the outcome in seeded/<id>/meta.json (caught_by) and seeded/RESULTS.md
V=$(cd "$(dirname "$0")/.." && pwd); cd $V
IDS=${@:-$(ls seeded | grep -E '^C[0-9]+-')}
for n in $IDS; do
  P=${n%%-*}
  OUT=$(VERIF_FAILFAST=1 MUT_LINES=1 ./tools/mutate.sh seeded/$n/patch.diff $P quick 2>&1)
  VIO=$(echo "$OUT" | grep -m1 '^VIOLATION' | sed 's/.*:: //' | cut -c1-200)
  R=$(echo "$OUT" | tail -1 | cut -d' ' -f1)
  VROOT=$V python3 - "$n" "$P" "$R" "$VIO" <<'PY'
import json,sys
n,P,R,V=sys.argv[1:5]
import os
p=os.path.join(os.environ.get('VROOT','/verif'),'seeded',n,'meta.json')
m=json.load(open(p))
m['caught_by']={'check':'./tools/check %s quick'%P,'result':R,'first_violation':V}
json.dump(m,open(p,'w'),indent=1)
PY
  echo "$n $R :: $VIO"
done | tee $V/out/${SEEDLOG:-seedrun.log}
