#!/bin/bash
# benignrun.sh: changes that keep every property (different error offsets, layout, hex case, buffer slack, tie order, ...)
# must NOT raise an alarm.  Runs the quick checks of the properties each change could touch.
V=$(cd "$(dirname "$0")/.." && pwd); cd $V
declare -A CHK=( [B1-error-offset]="C10 C01 C03" [B2-array-layout]="C04 C05 C09" [B3-hex-upper]="C04 C05" [B4-ensure-slack]="C04 C05 C09 C14" [B5-stable-merge]="C19 C17 C18"
                 [B6-replace-lookup-first]="C06 C07 C08" [B7-minify-keep-slash]="C13" [B8-patch-replace-whole-array]="C17" [B9-dup-children-first-alloc]="C11 C08" [B10-plus-number]="C02 C03 C10"
                 [B11-print-buffer-512]="C04 C05 C08 C14" [B12-growth-one-and-a-half]="C04 C05 C09 C08" [B13-patch-status-renumbered]="C16" [B14-delete-iterative-children]="C07 C06 C11"
                 [B15-parse-dispatch-order]="C01 C02 C03 C10" [B16-merge-in-place]="C18 C07"
                 # written by sub-agents that were asked for property-preserving changes (and ran their own differential tests)
                 [B17-escape-line-separators]="C04 C05 C09" [B18-parse-string-trim]="C01 C02 C08 C14 C10 C03" [B19-iterative-stable-sort]="C19 C17 C18"
                 [B20-compare-json-shadow]="C16 C18 C19 C14 C07" [B21-print-number-route]="C04 C05 C09" [B22-delete-nonrecursive]="C07 C06 C11 C08 C14"
                 [B23-inithooks-local]="C14" [B24-minify-restructured]="C13"
                 # second batch by sub-agents (one area of the library each, own differential tests incl. fault injection and sanitizers)
                 [B25-string-decoder-tables]="C01 C02 C03 C10 C08 C14" [B26-number-scanner-and-driver]="C01 C02 C03 C10 C08 C04" [B27-parse-container-helper]="C01 C02 C03 C10 C08 C14"
                 [B28-print-number-string-tables]="C04 C05 C09 C08 C14" [B29-print-buffer-machinery]="C04 C05 C09 C08 C14 C07" [B30-tree-edit-helpers]="C06 C07 C08 C14 C11 C19 C16"
                 [B31-generic-bulk-iterative-dup-delete]="C06 C07 C08 C11 C14" [B32-compare-one-pass-minify-cursors]="C12 C13 C06 C04" [B33-alloc-plumbing]="C14 C08 C07 C01 C04 C09 C17"
                 [B34-pointer-token-decode-once]="C15 C16 C17 C07" [B35-apply-patch-per-operation]="C16 C17 C19 C07" [B36-patch-generation-path-buffer]="C17 C18 C07 C16"
                 [B37-sort-rewrite]="C19 C17 C18 C16" [B38-printer-layout-helpers]="C04 C05 C09 C08 C14" )
for b in ${@:-${!CHK[@]}}; do
  for p in ${CHK[$b]}; do
    OUT=$(MUT_LINES=2 ./tools/mutate.sh benign/$b.diff $p quick 2>&1)
    R=$(echo "$OUT" | tail -1 | cut -d' ' -f1)
    case $R in MISSED) echo "$b $p: quiet (ok) $(echo "$OUT" | grep -o '[0-9]* drift' | head -1)";; *) echo "$b $p: FALSE ALARM or failure: $(echo "$OUT" | head -2 | cut -c1-220)";; esac
  done
done
