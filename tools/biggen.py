#!/usr/bin/env python3
"""Generates spec/BigCases.tla: deterministic sets of LARGE inputs (long literals, wide containers, deep nesting,
every byte value in every syntactic position) as TLA+ data.  Only the inputs are generated here; what the library must
do with them is computed by TLC from the specification (ParseMachine/JsonText, Minify, ...)."""
import os
V = os.path.dirname(os.path.dirname(os.path.abspath(__file__)))


def tup(b):
    return '<<' + ','.join(str(x) for x in b) + '>>'


def S(s):
    return s.encode('latin1') if isinstance(s, str) else bytes(s)


def parse_texts():
    T = []
    lens = [15, 16, 17, 31, 32, 33, 63, 64, 65, 127, 128, 129, 255, 256, 257, 300, 511, 512, 513]
    for n in lens:
        T.append(b'"' + b'a' * n + b'"')
        T.append(b'"' + b'a' * (n - 1) + b'\\n"')
        T.append(b'"' + b'a' * (n - 2) + b'\xc3\xa9"')
        T.append(b'"\\u00e9' + b'b' * (n - 6) + b'"') if n > 6 else None
        T.append(b'{"' + b'k' * n + b'":1}')
        T.append(b'["' + b'a' * n)                       # unterminated
        T.append(b' ' * n + b'1' + b' ' * n)
    # escape-dense strings and keys: the output buffer is sized from the input length, so every escape over-reserves
    for n in (1, 2, 5, 7, 8, 9, 10, 11, 12, 16, 20, 33, 64):
        for esc in (b'\\u00e9', b'\\u20ac', b'\\ud83d\\ude00', b'\\n', b'\\"', b'\\u0041'):
            T.append(b'"' + esc * n + b'"'); T.append(b'{"' + esc * n + b'":"' + esc * ((n + 1) // 2) + b'"}'); T.append(b'["x' + esc * n + b'y", 1]')
    # long numbers: lengths around the 63 byte copy limit, exponent markers at every offset near it
    for n in range(58, 68):
        T.append(b'1' * n)
        T.append(b'-' + b'1' * (n - 1))
        T.append(b'0.' + b'1' * (n - 2))
        T.append(b'[' + b'9' * n + b']')
        for e in (b'e+1', b'e-1', b'E+2', b'e5'):
            T.append(b'1' * n + e)
            T.append(b'1.' + b'5' * (n - 2) + e)
        T.append(b'-' + b'e' + b'0' * (n - 2))
        T.append(b'-.' + b'E+' + b'1' * (n - 4))
    for lit in ['0', '-0', '-0.0', '1e308', '1.7976931348623157e308', '1.7976931348623159e308', '1e309', '4.9e-324', '2.4e-324', '2.5e-324', '2.2250738585072014e-308',
                '123456789012345678901234567890', '0.1', '0.30000000000000004', '1e22', '1e23', '9007199254740993', '2147483647', '2147483648', '-2147483648', '-2147483649',
                '1E+2', '1e-0', '0e0', '0.000001', '1.5e-7', '123.456e+78', '5e-324', '1e-400', '99999999999999999999e-20', '4294967296', '0.1e1', '1.0', '-1.5e3']:
        T.append(S(lit)); T.append(b'[' + S(lit) + b']'); T.append(b'{"n":' + S(lit) + b'}')
    # exponents that do not fit into 16 / 32 / 64 bits (the value is 0 or infinity whatever the exponent is congruent to)
    for ex in (2 ** 32, 2 ** 32 + 1, 2 ** 32 + 22, 2 ** 32 - 3, 2 ** 31, 2 ** 31 + 1, 2 ** 63, 2 ** 64, 2 ** 64 + 5, 10 ** 10, 65536, 65541, 32773, 3 * 2 ** 32 + 2):
        for mant in (b'1', b'12.5', b'-7', b'2'):
            for sg in (b'', b'-', b'+'):
                T.append(mant + b'e' + sg + S(str(ex))); T.append(b'[' + mant + b'E' + sg + S(str(ex)) + b']')
    # plain decimals with many fraction digits / trailing zeros (few significant digits)
    for k in range(14, 36):
        T.append(b'0.' + b'0' * k + b'1'); T.append(b'0.' + b'0' * k + b'123456789012345'); T.append(b'-0.' + b'0' * k + b'7')
        T.append(b'1' + b'0' * k); T.append(b'123456789012345' + b'0' * k); T.append(b'[1' + b'0' * k + b'.' + b'0' * k + b']')
    # long literal directly followed by number-alphabet junk
    for n in (62, 63, 64, 65, 70, 80):
        for tail in (b'-', b'e', b'e+', b'.', b'+1', b'E', b'.5.5'):
            T.append(b'1' * n + tail); T.append(b'0.1' + b'0' * (n - 3) + tail)
    # duplicate members (kept, in order), keys differing in case, empty keys, escaped keys
    for t in ['{"a":1,"a":2}', '{"a":{"a":1},"A":2,"a":3}', '{"":1,"":[],"":{}}', '{"a":1,"b":2,"a":null,"b":"x"}', '[{"k":1,"k":1},{"k":2}]',
              '{"\\u0061":1,"a":2}', '{"a\\/b":1,"a/b":2}', '{ "a" : 1 , "a" : 2 }']:
        T.append(S(t))
    # wide containers
    for k in (8, 9, 10, 11, 16, 17, 32, 33, 64, 100, 101):
        T.append(b'[' + b','.join(S(str(i)) for i in range(k)) + b']')
        T.append(b'{' + b','.join(b'"k%d":%d' % (i, i % 3) for i in range(k)) + b'}')
        T.append(b'[' + b', '.join(b'"s"' for _ in range(k)) + b' ]')
        T.append(b'[' + b','.join(b'{}' for _ in range(k)) + b']')
        T.append(b'[' + b','.join(b'[]' for _ in range(k)) + b']')
        T.append(b'[' + b','.join(S(str(i)) for i in range(k)) + b',]')
    # deep nesting (well below the default limit)
    for d in (8, 9, 16, 17, 31, 32, 33, 40, 64, 100):
        T.append(b'[' * d + b']' * d)
        T.append(b'[' * d + b'1' + b']' * d)
        T.append(b'{"a":' * d + b'null' + b'}' * d)
        T.append(b'[' * d + b'[],1' + b'],1' * (d - 1) + b']')      # every level has a trailing sibling
        T.append(b'[' * d + b']' * (d - 1))
        T.append(b'[{"a":' * (d // 2) + b'0' + b'}]' * (d // 2))
    # the repository's own example documents (realistic mixes), their truncations and seeded single-byte corruptions
    import glob, random
    rnd = random.Random(12345)
    for f in sorted(glob.glob('/repo/tests/inputs/test*')):
        try:
            d = open(f, 'rb').read()
        except OSError:
            continue
        if len(d) == 0 or len(d) > 1000:
            continue
        T.append(d); T.append(d[:-1]); T.append(d[:len(d) // 2])
        for _ in range(6):
            i = rnd.randrange(len(d)); c = rnd.choice(b'[]{},:"\\ 1e-.\x00\xc3')
            T.append(d[:i] + bytes([c]) + d[i + 1:]); T.append(d[:i] + d[i + 1:])
    return sorted(set(t for t in T if t is not None))


def allbyte_texts():
    T = []
    for b in range(256):
        c = bytes([b])
        for pat in (b'"%s"', b'"a%s"', b'"%s b"', b'{"%s":1}', b'%s', b'1%s', b'%s1', b'[1%s]', b'"\\%s"', b'[%s', b'"\\u00%s0"', b'nul%s', b'{"a"%s1}'):
            T.append(pat.replace(b'%s', c))
    return sorted(set(T))


def minify_texts():
    T = []
    for b in range(1, 256):
        c = bytes([b])
        for pat in (b'"%s" ', b'{ "a%s b" : 1 }', b' %s "x y" ', b'"%s\\" y" ', b'[1, /* %s */ 2 ]', b'// %s\n"q r" ', b'"\\%s" "u v"', b'{"k" :"%s/ /*" }'):
            T.append(pat.replace(b'%s', c))
    for n in (15, 16, 17, 63, 64, 65, 127, 128, 255, 256, 257, 300):
        T.append(b'{ "a" : "' + b'x ' * (n // 2) + b'" , /* ' + b'c' * n + b' */ "b" : [ 1 , 2 ] } // ' + b't' * n)
        T.append(b'[' + b' 1 ,' * n + b' 2 ]')
        T.append(b'"' + b'\\"' * n + b'"  1')
        T.append(b'/*' + b'*' * n + b'/ "a b"')
        T.append(b'//' + b'/' * n)
    return sorted(set(T))


def main():
    with open(os.path.join(V, 'spec', 'BigCases.tla'), 'w') as f:
        f.write('------------------------------ MODULE BigCases ------------------------------\n')
        f.write('(* GENERATED by tools/biggen.py - inputs only (long literals, wide containers, deep nesting, every byte value in\n   every syntactic position); expected behaviour is computed by TLC from the specification. *)\n')
        big = parse_texts()
        bigq = [t for t in big if len(t) <= 140]        # the quick subset: everything up to 140 bytes (63/64 byte literals, 128 byte strings, 17 members, depth 33)
        for name, texts in (('BigParseTexts', big), ('BigParseTextsQ', bigq), ('AllByteTexts', allbyte_texts()), ('BigMinifyTexts', minify_texts())):
            f.write('%s == {\n%s }\n' % (name, ',\n'.join(' ' + tup(t) for t in texts)))
        f.write('=============================================================================\n')
    print('biggen: %d parse texts, %d all-byte texts, %d minify texts' % (len(parse_texts()), len(allbyte_texts()), len(minify_texts())))


if __name__ == '__main__':
    main()
