#!/usr/bin/env python3
"""Writes MANIFEST.json from tools/plans.py (claimed properties) and the property list."""
import json, os, sys
V = os.path.dirname(os.path.dirname(os.path.abspath(__file__)))
sys.path.insert(0, os.path.join(V, 'tools'))
import plans
props = [json.loads(l) for l in open(os.path.join(V, 'properties.jsonl'))]
checks, na = [], []
for p in props:
    pid = p['id']
    if pid in plans.PLANS:
        pl = plans.PLANS[pid]
        checks.append({
            'property_id': pid,
            'quick_cmd': './tools/check %s quick' % pid,
            'thorough_cmd': './tools/check %s thorough' % pid,
            'evidence_file': 'evidence/%s.json' % pid,
            'replay_cmd_template': './tools/check %s --replay {path}' % pid,
            'engine': 'tlc+vdrv',
            'level_claimed': {'category': 'model_checking', 'text': pl['level_text'], 'design_ref': pl.get('design_ref', 'DESIGN.md 6')},
            'level_note': pl['level_note'],
            'technique': pl['technique'],
        })
    else:
        na.append({'property_id': pid, 'reason': plans.NOT_CLAIMED.get(pid, 'specification and conformance binding for this property are not built yet; not claimed')})
m = {
    'version': 1,
    'setup_cmd': './tools/setup.sh',
    'hooks': {
        'guard': 'CJSON_VERIF',
        'enable': 'none needed: the driver observes through the public struct, cJSON_InitHooks, object-level symbol redirection and guard pages; -DCJSON_VERIF is reserved and currently unused',
        'baseline_off_cmd': 'cmake --build /repo/_build && ctest --test-dir /repo/_build -j8 --timeout 900',
        'source_commits': [],
        'add_only': True,
    },
    'engines': [
        {'name': 'tlc+vdrv', 'path': 'tools/check', 'serves_properties': [c['property_id'] for c in checks],
         'kind_free_text': 'TLC model checking of the TLA+ specification in spec/ (invariants and L2=>L1 refinement on every transition/case), '
                           'every emitted state/transition/case replayed against the real library by harness/vdrv (forward conformance), '
                           'recorded implementation traces validated by TLC (reverse conformance)'},
    ],
    'checks': checks,
    'not_applicable': na,
    'notes': 'See DESIGN.md. Known findings: KNOWN_FINDINGS.txt. Seeded changes used to validate the checks: seeded/.',
}
json.dump(m, open(os.path.join(V, 'MANIFEST.json'), 'w'), indent=1)
print('MANIFEST.json: %d checks, %d not claimed' % (len(checks), len(na)))
