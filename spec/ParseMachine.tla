---------------------------- MODULE ParseMachine ----------------------------
(***************************************************************************)
(* Implementation-shaped transcription (layer L2) of the parser in cJSON.c: *)
(* cJSON_ParseWithLengthOpts, skip_utf8_bom, buffer_skip_whitespace (with   *)
(* its step back at the end of the buffer), parse_value, parse_number (63    *)
(* byte copy, longest prefix strtod converts), parse_string (pre-scan,       *)
(* escape switch, utf16_literal_to_utf8, parse_hex4), parse_array,           *)
(* parse_object.  Offsets are the code's 0-based offsets; every byte access  *)
(* is At(b, o) = b[o + 1], so TLC itself stops with an out-of-domain error    *)
(* if the transcription ever reads outside the declared length (C01).        *)
(* Each function yields [ok, off, v, eof]: eof tells that a failure was       *)
(* caused by running out of input (used only to prune the enumeration).       *)
(***************************************************************************)
EXTENDS JsonText

CONSTANT NestingLimit          \* CJSON_NESTING_LIMIT of the build under test

At(b, o) == b[o + 1]
CanAccess(b, off, k) == off + k < Len(b)            \* can_access_at_index
CanRead(b, off, size) == off + size <= Len(b)       \* can_read

RECURSIVE WsScan(_, _)
WsScan(b, o) == IF o < Len(b) /\ At(b, o) <= 32 THEN WsScan(b, o + 1) ELSE o
\* buffer_skip_whitespace (cJSON.c:1058)
SkipWs(b, off) ==
  IF ~CanAccess(b, off, 0) THEN off
  ELSE LET o == WsScan(b, off) IN IF o = Len(b) THEN o - 1 ELSE o

\* skip_utf8_bom (cJSON.c:1084): strncmp of three bytes once three bytes are accessible
SkipBom(b) == IF CanAccess(b, 0, 2) /\ At(b, 0) = 239 /\ At(b, 1) = 187 /\ At(b, 2) = 191 THEN 3 ELSE 0

R(ok, off, v, eof) == [ok |-> ok, off |-> off, v |-> v, eof |-> eof]
\* nothing but (lenient) whitespace from offset o to the end of the buffer (only for pruning)
AtEnd(b, o) == ~CanAccess(b, o, 0) \/ WsScan(b, o) = Len(b)

(***************************************************************************)
(* parse_number (cJSON.c:307)                                               *)
(***************************************************************************)
NumChar(c) == c \in 48..57 \/ c \in {43, 45, 101, 69, 46}
RECURSIVE CopyRun(_, _, _)
\* the copy loop: at most 63 admissible bytes that are accessible
CopyRun(b, off, i) == IF i < 63 /\ CanAccess(b, off, i) /\ NumChar(At(b, off + i)) THEN CopyRun(b, off, i + 1) ELSE i

\* the longest prefix of run (a sequence over NumChar) that strtod converts; 0 if none
StrtodLen(run) ==
  LET L == Len(run)
      at(i) == IF i <= L THEN run[i] ELSE 0
      RECURSIVE dg(_)
      dg(i) == IF i <= L /\ run[i] \in 48..57 THEN 1 + dg(i + 1) ELSE 0
      j0 == IF at(1) \in {43, 45} THEN 2 ELSE 1
      d1 == dg(j0)
      j1 == j0 + d1
      d2 == IF at(j1) = 46 THEN dg(j1 + 1) ELSE 0
      j2 == IF at(j1) = 46 /\ (d1 + d2 >= 1) THEN j1 + 1 + d2 ELSE j1
      j3 == IF at(j2) \in {101, 69} THEN (IF at(j2 + 1) \in {43, 45} THEN j2 + 2 ELSE j2 + 1) ELSE j2
      d3 == IF at(j2) \in {101, 69} THEN dg(j3) ELSE 0
  IN IF d1 + (IF j2 > j1 THEN d2 ELSE 0) = 0 THEN 0
     ELSE (IF d3 >= 1 THEN j3 + d3 ELSE j2) - 1

ParseNumber(b, off) ==
  LET n   == CopyRun(b, off, 0)
      run == SubSeq(b, off + 1, off + n)
      k   == StrtodLen(run)
  IN IF k = 0 THEN R(FALSE, off, VNull, off + n = Len(b))          \* strtod converted nothing
     ELSE R(TRUE, off + k, VNumLex(SubSeq(run, 1, k)), FALSE)

(***************************************************************************)
(* parse_hex4 / utf16_literal_to_utf8 (cJSON.c:634-789)                      *)
(* ip: offset of the backslash, ie: offset of the closing quote              *)
(***************************************************************************)
U16(b, ip, ie) ==       \* [len, bytes]  len = 0: failure
  LET bad == [len |-> 0, bytes |-> <<>>] IN
  IF ie - ip < 6 THEN bad
  ELSE IF ~(\A k \in 2..5 : IsHex(At(b, ip + k))) THEN bad                  \* not four hex digits
  ELSE LET first == Hex4(b, ip + 3) IN                                       \* Hex4 is 1-based: offset ip+2 is index ip+3
       IF first \in 56320..57343 THEN bad
       ELSE IF first \in 55296..56319 THEN
            LET s2 == ip + 6 IN
            IF ie - s2 < 6 THEN bad
            ELSE IF At(b, s2) # 92 \/ At(b, s2 + 1) # 117 THEN bad
            ELSE IF ~(\A k \in 2..5 : IsHex(At(b, s2 + k))) THEN bad
            ELSE LET second == Hex4(b, s2 + 3) IN
                 IF second < 56320 \/ second > 57343 THEN bad
                 ELSE [len |-> 12, bytes |-> Utf8(65536 + (Rem(first, 1024) * 1024 + Rem(second, 1024)))]
       ELSE [len |-> 6, bytes |-> Utf8(first)]

(***************************************************************************)
(* parse_string (cJSON.c:792)                                               *)
(***************************************************************************)
RECURSIVE PreScan(_, _)
\* the pre-scan for the closing quote: returns the offset reached, or -1 when a backslash is the last byte
PreScan(b, e) ==
  IF e < Len(b) /\ At(b, e) # 34
  THEN IF At(b, e) = 92
       THEN IF e + 1 >= Len(b) THEN -1 ELSE PreScan(b, e + 2)
       ELSE PreScan(b, e + 1)
  ELSE e

RECURSIVE Decode(_, _, _, _)
\* the copy loop: [ok, bytes, at]  at = offset of the offending escape on failure
Decode(b, ip, ie, acc) ==
  IF ip >= ie THEN [ok |-> TRUE, bytes |-> acc, at |-> ip]
  ELSE IF At(b, ip) # 92 THEN Decode(b, ip + 1, ie, Append(acc, At(b, ip)))
  ELSE LET e == At(b, ip + 1) IN
       IF e = 98 THEN Decode(b, ip + 2, ie, Append(acc, 8))
       ELSE IF e = 102 THEN Decode(b, ip + 2, ie, Append(acc, 12))
       ELSE IF e = 110 THEN Decode(b, ip + 2, ie, Append(acc, 10))
       ELSE IF e = 114 THEN Decode(b, ip + 2, ie, Append(acc, 13))
       ELSE IF e = 116 THEN Decode(b, ip + 2, ie, Append(acc, 9))
       ELSE IF e \in {34, 92, 47} THEN Decode(b, ip + 2, ie, Append(acc, e))
       ELSE IF e = 117 THEN LET u == U16(b, ip, ie) IN
                            IF u.len = 0 THEN [ok |-> FALSE, bytes |-> acc, at |-> ip]
                            ELSE Decode(b, ip + u.len, ie, acc \o u.bytes)
       ELSE [ok |-> FALSE, bytes |-> acc, at |-> ip]

\* what the C API exposes of a decoded text: the bytes before the first zero byte
RECURSIVE UptoNul(_)
UptoNul(s) == IF s = <<>> \/ Head(s) = 0 THEN <<>> ELSE <<Head(s)>> \o UptoNul(Tail(s))

ParseString(b, off) ==
  IF At(b, off) # 34 THEN R(FALSE, off + 1, VNull, FALSE)                  \* not a string
  ELSE LET e == PreScan(b, off + 1) IN
       IF e = -1 THEN R(FALSE, off + 1, VNull, TRUE)                       \* last input byte is a backslash
       ELSE IF e >= Len(b) \/ At(b, e) # 34 THEN R(FALSE, off + 1, VNull, TRUE)   \* string ended unexpectedly
       ELSE LET dr == Decode(b, off + 1, e, <<>>) IN
            IF dr.ok THEN R(TRUE, e + 1, VStr(UptoNul(dr.bytes)), FALSE)
            ELSE R(FALSE, dr.at, VNull, FALSE)

(***************************************************************************)
(* parse_value / parse_array / parse_object (cJSON.c:1336, 1465, 1625)       *)
(***************************************************************************)
StartsWith(b, off, w) == CanRead(b, off, Len(w)) /\ \A k \in DOMAIN w : At(b, off + k - 1) = w[k]
\* the rest of the buffer is a proper prefix of a literal (only for pruning)
LitPrefix(b, off) ==
  LET rest == SubSeq(b, off + 1, Len(b)) IN
  \E w \in {<<110, 117, 108, 108>>, <<116, 114, 117, 101>>, <<102, 97, 108, 115, 101>>} :
     Len(rest) < Len(w) /\ \A k \in DOMAIN rest : rest[k] = w[k]

RECURSIVE PValue(_, _, _)
RECURSIVE PArrayLoop(_, _, _, _)
RECURSIVE PObjectLoop(_, _, _, _)

PValue(b, off, depth) ==
  IF StartsWith(b, off, <<110, 117, 108, 108>>) THEN R(TRUE, off + 4, VNull, FALSE)
  ELSE IF StartsWith(b, off, <<102, 97, 108, 115, 101>>) THEN R(TRUE, off + 5, VFalse, FALSE)
  ELSE IF StartsWith(b, off, <<116, 114, 117, 101>>) THEN R(TRUE, off + 4, VTrue, FALSE)
  ELSE IF CanAccess(b, off, 0) /\ At(b, off) = 34 THEN ParseString(b, off)
  ELSE IF CanAccess(b, off, 0) /\ (At(b, off) = 45 \/ At(b, off) \in 48..57) THEN ParseNumber(b, off)
  ELSE IF CanAccess(b, off, 0) /\ At(b, off) = 91 THEN
       \* parse_array
       IF depth >= NestingLimit THEN R(FALSE, off, VNull, FALSE)
       ELSE LET o1 == SkipWs(b, off + 1) IN
            IF CanAccess(b, o1, 0) /\ At(b, o1) = 93 THEN R(TRUE, o1 + 1, VArr(<<>>), FALSE)
            ELSE IF ~CanAccess(b, o1, 0) THEN R(FALSE, o1 - 1, VNull, TRUE)
            ELSE PArrayLoop(b, o1 - 1, depth + 1, <<>>)
  ELSE IF CanAccess(b, off, 0) /\ At(b, off) = 123 THEN
       \* parse_object
       IF depth >= NestingLimit THEN R(FALSE, off, VNull, FALSE)
       ELSE LET o1 == SkipWs(b, off + 1) IN
            IF CanAccess(b, o1, 0) /\ At(b, o1) = 125 THEN R(TRUE, o1 + 1, VObj(<<>>), FALSE)
            ELSE IF ~CanAccess(b, o1, 0) THEN R(FALSE, o1 - 1, VNull, TRUE)
            ELSE PObjectLoop(b, o1 - 1, depth + 1, <<>>)
  ELSE R(FALSE, off, VNull, LitPrefix(b, off) \/ AtEnd(b, off))

\* one round of the do-while of parse_array; off is the offset of '[' or ','
PArrayLoop(b, off, depth, acc) ==
  LET o3 == SkipWs(b, off + 1)
      r  == PValue(b, o3, depth)
  IN IF ~r.ok THEN r
     ELSE LET o4 == SkipWs(b, r.off) acc2 == Append(acc, r.v) IN
          IF CanAccess(b, o4, 0) /\ At(b, o4) = 44 THEN PArrayLoop(b, o4, depth, acc2)
          ELSE IF ~CanAccess(b, o4, 0) \/ At(b, o4) # 93 THEN R(FALSE, o4, VNull, AtEnd(b, o4))
          ELSE R(TRUE, o4 + 1, VArr(acc2), FALSE)

PObjectLoop(b, off, depth, acc) ==
  IF ~CanAccess(b, off, 1) THEN R(FALSE, off, VNull, TRUE)                 \* nothing comes after the comma
  ELSE LET o3 == SkipWs(b, off + 1)
           kr == ParseString(b, o3)
       IN IF ~kr.ok THEN kr
          ELSE LET o4 == SkipWs(b, kr.off) IN
               IF ~CanAccess(b, o4, 0) \/ At(b, o4) # 58 THEN R(FALSE, o4, VNull, AtEnd(b, o4))
               ELSE LET o5 == SkipWs(b, o4 + 1)
                        r  == PValue(b, o5, depth)
                    IN IF ~r.ok THEN r
                       ELSE LET o6 == SkipWs(b, r.off) acc2 == Append(acc, <<kr.v.s, r.v>>) IN
                            IF CanAccess(b, o6, 0) /\ At(b, o6) = 44 THEN PObjectLoop(b, o6, depth, acc2)
                            ELSE IF ~CanAccess(b, o6, 0) \/ At(b, o6) # 125 THEN R(FALSE, o6, VNull, AtEnd(b, o6))
                            ELSE R(TRUE, o6 + 1, VObj(acc2), FALSE)

(***************************************************************************)
(* cJSON_ParseWithLengthOpts (cJSON.c:1115): b is the buffer of exactly the   *)
(* declared length.  Result: [ok, v, end, err, eof]                           *)
(*   ok: end = offset reported through return_parse_end                       *)
(*   failure: err = the error position (both return_parse_end and the global  *)
(*   error pointer), clamped to the last byte                                 *)
(***************************************************************************)
Clamp(b, off) == IF off < Len(b) THEN off ELSE IF Len(b) > 0 THEN Len(b) - 1 ELSE 0

ParseBuf(b, rnt) ==
  IF Len(b) = 0 THEN [ok |-> FALSE, v |-> VNull, end |-> 0, err |-> 0, eof |-> TRUE]
  ELSE LET r == PValue(b, SkipWs(b, SkipBom(b)), 0) IN
       IF ~r.ok THEN [ok |-> FALSE, v |-> VNull, end |-> 0, err |-> Clamp(b, r.off), eof |-> r.eof]
       ELSE IF rnt
            THEN LET o == SkipWs(b, r.off) IN
                 IF o >= Len(b) \/ At(b, o) # 0
                 THEN [ok |-> FALSE, v |-> VNull, end |-> 0, err |-> Clamp(b, o), eof |-> FALSE]
                 ELSE [ok |-> TRUE, v |-> r.v, end |-> o, err |-> 0, eof |-> FALSE]
            ELSE [ok |-> TRUE, v |-> r.v, end |-> r.off, err |-> 0, eof |-> FALSE]
=============================================================================
