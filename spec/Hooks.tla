-------------------------------- MODULE Hooks --------------------------------
(***************************************************************************)
(* cJSON_InitHooks (cJSON.c:209-238) and the allocator discipline of C14.   *)
(* State: the effective hook triple global_hooks = {allocate, deallocate,    *)
(* reallocate}, and what the caller still holds (trees and printed texts),   *)
(* each remembered with the function its memory came from.                   *)
(* Actions: InitHooks(argument) and one action per class of library call;    *)
(* a library call is a bag of allocator events, every one of which is routed  *)
(* through the hook triple in force (hooks are snapshotted per call).         *)
(***************************************************************************)
EXTENDS Integers, Sequences, FiniteSets, TLC, Json

CONSTANTS MaxHeld, Emit

\* who serves a request
User == "user"      \* the function the caller installed
Libc == "libc"      \* malloc / free / realloc of the C library
None == "none"

\* arguments of cJSON_InitHooks: NULL, or a struct whose members may be NULL
HookArgs == {[null |-> TRUE, m |-> FALSE, f |-> FALSE]} \cup {[null |-> FALSE, m |-> m, f |-> f] : m, f \in BOOLEAN}

VARIABLES eff,      \* [alloc, dealloc, realloc]
          held,     \* sequence of [what: "tree" | "text", origin]
          last      \* events of the last call (observation only)
vars == <<eff, held, last>>

Default == [alloc |-> Libc, dealloc |-> Libc, realloc |-> Libc]

\* the selection logic, line by line
Select(a) ==
  IF a.null THEN Default
  ELSE LET al == IF a.m THEN User ELSE Libc           \* global_hooks.allocate = malloc; if (hooks->malloc_fn != NULL) ...
           de == IF a.f THEN User ELSE Libc           \* global_hooks.deallocate = free; if (hooks->free_fn != NULL) ...
           re == IF al = Libc /\ de = Libc THEN Libc ELSE None     \* use realloc only if both free and malloc are used
       IN [alloc |-> al, dealloc |-> de, realloc |-> re]

\* events of one call class under hook triple h: set of [ev, by] ; "grow" is how a print buffer is enlarged / trimmed
Grow(h) == IF h.realloc # None THEN {[ev |-> "realloc", by |-> h.realloc]}
           ELSE {[ev |-> "alloc", by |-> h.alloc], [ev |-> "free", by |-> h.dealloc]}
Events(kind, h) ==
  CASE kind = "transient_tree" -> {[ev |-> "alloc", by |-> h.alloc], [ev |-> "free", by |-> h.dealloc]}      \* parse/create/edit/duplicate/utils then delete
    [] kind = "transient_print" -> {[ev |-> "alloc", by |-> h.alloc], [ev |-> "free", by |-> h.dealloc]} \cup Grow(h)
    [] kind = "hold_tree" -> {[ev |-> "alloc", by |-> h.alloc]}
    [] kind = "hold_text" -> {[ev |-> "alloc", by |-> h.alloc], [ev |-> "free", by |-> h.dealloc]} \cup Grow(h)
    [] kind = "release" -> {[ev |-> "free", by |-> h.dealloc]}
    [] OTHER -> {}

Init == eff = Default /\ held = <<>> /\ last = {}

\* documented condition: the allocator is exchanged only while the library holds no memory of the old one
InitHooks(a) == /\ held = <<>>
                /\ eff' = Select(a) /\ held' = held /\ last' = {}
                /\ (Emit => PrintT(ToJson(<<"H", "InitHooks", a, eff, held, eff', last'>>)))

Call(kind) ==
  /\ kind \in {"transient_tree", "transient_print", "hold_tree", "hold_text"}
  /\ kind \in {"hold_tree", "hold_text"} => Len(held) < MaxHeld
  /\ eff' = eff /\ last' = Events(kind, eff)
  /\ held' = IF kind = "hold_tree" THEN Append(held, [what |-> "tree", origin |-> eff.alloc])
             ELSE IF kind = "hold_text" THEN Append(held, [what |-> "text", origin |-> IF eff.realloc # None THEN eff.realloc ELSE eff.alloc])
             ELSE held
  /\ (Emit => PrintT(ToJson(<<"H", kind, 0, eff, held, eff', last'>>)))

Release(i) ==       \* cJSON_Delete of a held tree / cJSON_free of a held text
  /\ i \in DOMAIN held
  /\ eff' = eff /\ last' = Events("release", eff)
  /\ held' = [j \in 1..(Len(held) - 1) |-> IF j < i THEN held[j] ELSE held[j + 1]]
  /\ (Emit => PrintT(ToJson(<<"H", "release", i, eff, held, eff', last'>>)))

Next == (\E a \in HookArgs : InitHooks(a)) \/ (\E k \in {"transient_tree", "transient_print", "hold_tree", "hold_text"} : Call(k)) \/ (\E i \in DOMAIN held : Release(i))

(***************************************************************************)
(* C14                                                                      *)
(***************************************************************************)
BothCustom == eff.alloc = User /\ eff.dealloc = User
\* with custom hooks the C library allocator is not called on the library's behalf and realloc is never used
NoLibc == BothCustom => \A e \in last : e.by = User /\ e.ev # "realloc"
\* realloc only when both defaults are in force
ReallocOnlyDefault == \A e \in last : e.ev = "realloc" => (eff.alloc = Libc /\ eff.dealloc = Libc)
\* what is held was obtained from the allocator whose release function is in force (release goes to the counterpart)
Counterpart == (BothCustom \/ eff = Default) => \A i \in DOMAIN held : held[i].origin = eff.dealloc
\* every request goes to the function the configuration names
Routed == \A e \in last : (e.ev = "alloc" => e.by = eff.alloc) /\ (e.ev = "free" => e.by = eff.dealloc) /\ (e.ev = "realloc" => e.by = eff.realloc /\ eff.realloc # None)
\* NULL hooks or NULL members restore the defaults (checked on the selection function itself)
Restores == /\ Select([null |-> TRUE, m |-> FALSE, f |-> FALSE]) = Default
            /\ Select([null |-> FALSE, m |-> FALSE, f |-> FALSE]) = Default
            /\ Select([null |-> FALSE, m |-> TRUE, f |-> FALSE]).dealloc = Libc /\ Select([null |-> FALSE, m |-> FALSE, f |-> TRUE]).alloc = Libc
            /\ \A a \in HookArgs : (a.m \/ a.f) /\ ~a.null => Select(a).realloc = None
(***************************************************************************)
(* Unbounded version.  HooksCore.tla is this machine without emission and    *)
(* without the bound MaxHeld; spec/proof/HooksProof.tla proves by TLAPS that  *)
(* an inductive invariant implying NoLibc, ReallocOnlyDefault, Counterpart    *)
(* and Routed holds in every behaviour of HooksCore (histories of any length, *)
(* any number of held objects).  Every step explored here is a step of        *)
(* HooksCore (checked by TLC), so the proof speaks about this machine.        *)
(***************************************************************************)
Core == INSTANCE HooksCore
RefinesCore == [][Core!Next]_vars
=============================================================================
