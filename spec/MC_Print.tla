------------------------------ MODULE MC_Print ------------------------------
(***************************************************************************)
(* For every tree of a finite universe and both formats:                    *)
(*  - the buffer machine, under every entry point, every initial buffer     *)
(*    size and both growth strategies, never writes outside its buffer,      *)
(*    keeps its text terminated, and produces exactly Render(v) (C04 C05);   *)
(*  - Render(v) is one RFC 8259 text that denotes the tree (non-finite       *)
(*    numbers as null), formatted minus whitespace = unformatted (C05),      *)
(*    so parsing it back gives the same tree (C04);                          *)
(*  - printing into n caller bytes writes below n only, succeeds exactly     *)
(*    from a threshold within [len+1, len+6] on, and then holds Render(v)    *)
(*    and a terminator (C09).                                                *)
(* Every (tree, format) is emitted with the predicted text and threshold.   *)
(***************************************************************************)
EXTENDS PrintMachine, TLC, Json

CONSTANTS Tier, Emit
VARIABLES v, fmt, phase

SS == {<<>>, <<97>>, <<34>>, <<92>>, <<10>>, <<1>>, <<31>>, <<127>>, <<195, 169>>, <<97, 9, 98>>, <<195, 169, 10>>, <<8, 12, 13, 47>>, <<240, 159, 152, 128, 34>>}
KS == {<<97>>, <<>>, <<34>>, <<10>>, <<195, 169, 9>>}
NS == {N_zero, N_one, N_minus_one, N_tenth, N_third, N_e22, N_big, N_neg_pi, N_int_max_p1, N_int_min_m1, N_e15, N_seventeen, N_nan, N_inf, N_negzero, N_frac}
Scalars == {VNull, VTrue, VFalse} \cup {VNum(n) : n \in NS} \cup {VStr(x) : x \in SS}
S1 == {VNull, VNum(N_one), VNum(N_tenth), VStr(<<97>>), VStr(<<34>>)}
L1 == ArrsOver(S1, 2) \cup ObjsOver(S1, KS, 2, TRUE)
T0 == {VNull, VStr(<<97>>)}
T1 == ArrsOver({VNull}, 1) \cup ObjsOver({VNull}, {<<97>>}, 1, TRUE)
L2 == ArrsOver(T0 \cup T1, 2) \cup ObjsOver(T0 \cup T1, {<<97>>, <<98>>}, 2, TRUE)
\* depth 3 chains for the indentation logic
D3 == {VObj(<<<<<<97>>, VObj(<<<<<<98>>, VObj(<<<<<<99>>, x>>>>)>>>>)>>>>) : x \in {VNull, VArr(<<VNum(N_one)>>)}}
      \cup {VArr(<<VObj(<<<<<<97>>, VArr(<<VObj(<<<<<<98>>, VNull>>>>)>>)>>>>)>>)}
Raws == {VRaw(<<120>>), VArr(<<VRaw(<<91, 49, 93>>), VNull>>)}

\* beyond the small scope: long strings with escapes at every alignment, wide arrays (several buffer growths), deep indentation
As(n) == Rep8(97, n)
EscLens == (14..18) \cup (30..34) \cup (46..50) \cup (62..66) \cup {96, 112, 128}
EscStrs == {<<10>> \o As(n - 3) \o <<34, 92>> : n \in EscLens} \cup {<<92>> \o As(n - 4) \o <<34, 9, 1>> : n \in EscLens}
           \cup {As(3) \o <<1>> \o As(n - 6) \o <<31, 2>> : n \in EscLens} \cup {As(n - 2) \o <<9, 1>> : n \in EscLens} \cup {<<34>> \o As(n - 1) : n \in EscLens}
LongStrs == {As(n) : n \in {100, 253, 254, 255, 256, 257, 300, 511, 512, 600}} \cup {As(n) \o <<10>> : n \in {250, 254, 255, 256, 520}}
RECURSIVE Nest(_, _)
Nest(d, leaf) == IF d = 0 THEN leaf ELSE VObj(<< <<<<107>>, Nest(d - 1, leaf)>>, <<<<108>>, VArr(<<VNum(N_one), Nest(d - 1, leaf)>>)>> >>)
RECURSIVE Chain1(_, _)
Chain1(d, leaf) == IF d = 0 THEN leaf ELSE VObj(<< <<<<107>>, VArr(<<Chain1(d - 1, leaf)>>)>> >>)
BigTrees == {VStr(x) : x \in EscStrs \cup LongStrs}
            \cup {VArr(<<VStr(x), VNum(N_one)>>) : x \in EscStrs} \cup {VArr(<<VNull, VStr(x)>>) : x \in EscStrs}
            \cup {VObj(<< <<x, VStr(x)>>, <<<<107>>, VTrue>> >>) : x \in EscStrs}
            \cup {VObj(<< <<x, VNull>> >>) : x \in {As(16), As(32), <<10>> \o As(28) \o <<34, 92>>, As(255), As(300)}}
            \cup {VArr([i \in 1..n |-> VNum(IF Rem(i, 2) = 0 THEN N_tenth ELSE N_neg_pi)]) : n \in {8, 17, 30, 64, 100}}
            \cup {VArr([i \in 1..n |-> VStr(As(20))]) : n \in {12, 13, 40}}
            \cup {VObj([i \in 1..n |-> <<<<107, 48 + (i \div 10), 48 + Rem(i, 10)>>, VNum(N_frac)>>]) : n \in {9, 17, 33}}
            \cup {Nest(3, VNull), Nest(4, VStr(<<120>>)), Chain1(12, VTrue), Chain1(20, VArr(<<>>)), Chain1(7, VObj(<<>>))}
            \cup {VNum(n) : n \in NumIds} \cup {VArr(<<VNum(n)>>) : n \in NumIds} \cup {VObj(<< <<<<107>>, VNum(n)>>, <<<<108>>, VNull>> >>) : n \in NumIds}

\* tokens of tens of kilobytes: the print buffer passes 64 KiB and single tokens exceed half of it (emission of Render only)
\* as deep as the parser accepts (CJSON_NESTING_LIMIT = 1000 containers, a value inside the innermost one) and deeper (construction API)
RECURSIVE DeepA(_, _)
DeepA(d, leaf) == IF d = 0 THEN leaf ELSE VArr(<<DeepA(d - 1, leaf)>>)
RECURSIVE DeepO(_, _)
DeepO(d, leaf) == IF d = 0 THEN leaf ELSE VObj(<< <<<<107>>, DeepO(d - 1, leaf)>> >>)
DeepTrees == {DeepA(1000, VNum(N_one)), DeepA(999, VArr(<<>>)), DeepO(1000, VStr(<<118>>)), DeepO(400, DeepA(600, VNull))}
HugeTrees == DeepTrees \cup {VObj(<< <<<<104>>, VStr(As(40000))>>, <<<<110>>, VNum(N_one)>>, <<<<98>>, VStr(As(100000))>>, <<<<116>>, VArr(<<VTrue, VNull>>)>> >>),
              VStr(As(66000)), VArr([i \in 1..9000 |-> VStr(As(7))]) }
\* bytes that a character-class function may classify differently from the escaping rule (DEL, C1 controls, 0xFF), next to bytes that are escaped
MixStrs == {<<127, 34>>, <<10, 127>>, <<127, 127, 1>>, <<128, 10>>, <<159, 34, 133>>, <<255, 9>>, <<34, 127, 92, 127>>}
MixTrees == {VStr(x) : x \in MixStrs} \cup {VArr(<<VStr(x), VNull>>) : x \in MixStrs} \cup {VObj(<< <<x, VStr(x)>>, <<<<127>>, VNum(N_one)>> >>) : x \in MixStrs}
Universe == IF Tier = "huge" THEN HugeTrees ELSE IF Tier = "deep" THEN {DeepA(1000, VNum(N_one)), DeepA(999, VArr(<<>>)), DeepO(1000, VNull)} ELSE IF Tier = "table" THEN {VNull} ELSE IF Tier = "quick" THEN Scalars \cup L1 \cup D3 \cup Raws \cup MixTrees
            ELSE IF Tier = "big" THEN BigTrees
            ELSE Scalars \cup L1 \cup L2 \cup D3 \cup Raws \cup MixTrees

RECURSIVE HasRaw(_)
HasRaw(x) == x.t = "raw" \/ \E i \in DOMAIN x.m : HasRaw(x.m[i].v)

\* the text every print entry point must give for member i of v when that member is passed in place
Subs(x, f) == IF x.t \in {"arr", "obj"} THEN [i \in DOMAIN x.m |-> Render(x.m[i].v, f, 0)] ELSE <<>>

\* the escape function of print_string_ptr is a byte-wise map: the table the driver applies to every 2- and 3-byte string
EscTable == [b \in 1..255 |-> EscByte(b)]
ContextFree == \A s \in SS \cup KS : \A t \in SS : EscBody(s \o t) = EscBody(s) \o EscBody(t)

Init == v \in Universe /\ fmt \in BOOLEAN /\ phase = 0

Check ==
  LET text == Render(v, fmt, 0)
      L == Len(text)
      \* allocating entry points: every initial size that matters, both growth strategies
      okAlloc == \A rl \in BOOLEAN :
                   /\ LET r == PrintAlloc(v, fmt, rl, 256) IN r.ok /\ ~r.p.ovf /\ ~r.p.unt /\ r.text = text
                   /\ \A pre \in (IF L <= 80 THEN 0..(L + 2) ELSE {0, 1, 2, 3, 16, 255, 256, 257, L - 1, L, L + 1, L + 2, L + 100}) \cup {L + 4097, L + 5000} :
                        LET r == PrintBuffered(v, fmt, rl, pre) IN r.ok /\ ~r.p.ovf /\ ~r.p.unt /\ r.text = text
      \* caller buffer
      pre(n) == PrintPreallocated(v, fmt, n)
      NS0 == IF L <= 80 THEN 0..(L + 8) ELSE {0, 1, 2, 17, 255, 256, 257} \cup ((L - 20)..(L + 8))
      safe == \A n \in NS0 : LET r == pre(n) IN ~r.p.ovf /\ r.p.hi <= n /\ (r.ok => r.text = text /\ ZeroFrom(r.p.buf, 1) = L + 1)
      thr == IF \E n \in NS0 : pre(n).ok THEN CHOOSE n \in NS0 : pre(n).ok /\ \A k \in NS0 : k < n => ~pre(k).ok ELSE -1
      mono == \A n \in NS0 : (n + 1 \in NS0 /\ pre(n).ok) => pre(n + 1).ok
      strict == HasRaw(v) \/ (IsText(text, "rfc") /\ StrictEq(TextValue(text, "rfc"), Canon(v)))
      strip == StripWs(Render(v, TRUE, 0), FALSE, FALSE) = Render(v, FALSE, 0)
      \* every print entry point prints exactly the item it is given: a member printed in place (it has siblings, it may have a key)
      \* gives the text of that member alone, at depth 0
      inplace == \A i \in DOMAIN Subs(v, fmt) : \A rl \in BOOLEAN :
                   LET r == PrintAlloc(v.m[i].v, fmt, rl, 256) IN r.ok /\ r.text = Subs(v, fmt)[i]
  IN /\ Assert(okAlloc, <<"C04/C05: the buffer machine does not produce Render(v) for some entry point / buffer size / allocator", v, fmt>>)
     /\ Assert(strict, <<"C05: Render(v) is not one RFC 8259 text denoting v", v, fmt>>)
     /\ Assert(strip, <<"C05: formatted minus whitespace differs from unformatted", v>>)
     /\ Assert(safe /\ mono /\ thr >= L + 1 /\ thr <= L + 6, <<"C09: printing into a caller buffer", v, fmt, thr>>)
     /\ Assert(inplace, <<"C05: an item printed where it stands (with siblings) is not Render(item)", v, fmt>>)
     /\ (Emit => PrintT(ToJson(<<"R", JV(v), fmt, text, thr, Subs(v, fmt)>>)))

\* huge trees: only the declarative text is produced (the buffer machine is checked on the smaller tiers)
EmitOnly == LET text == Render(v, fmt, 0) IN Emit => PrintT(ToJson(<<"R", JV(v), fmt, text, Len(text) + 2>>))
EmitTable == /\ Assert(ContextFree, "EscBody is not a byte-wise map")
             /\ (Emit => PrintT(ToJson(<<"E", EscTable>>)))
Next == phase = 0 /\ phase' = 1 /\ UNCHANGED <<v, fmt>> /\ (IF Tier \in {"huge", "deep"} THEN EmitOnly ELSE IF Tier = "table" THEN EmitTable ELSE Check)
=============================================================================
