------------------------------ MODULE HooksProof ------------------------------
EXTENDS HooksCore, TLAPS

E1 == [alloc |-> Libc, dealloc |-> Libc, realloc |-> Libc]
E2 == [alloc |-> User, dealloc |-> Libc, realloc |-> None]
E3 == [alloc |-> Libc, dealloc |-> User, realloc |-> None]
E4 == [alloc |-> User, dealloc |-> User, realloc |-> None]
Effs == {E1, E2, E3, E4}
EvRec == [ev : {"alloc", "free", "realloc"}, by : Who]
HeldRec == [what : {"tree", "text"}, origin : Who]

IndInv ==
  /\ eff \in Effs
  /\ held \in Seq(HeldRec)
  /\ last \subseteq EvRec
  /\ \A i \in DOMAIN held : held[i].origin = eff.alloc
  /\ Routed

LEMMA SelectIn == \A a \in HookArgs : Select(a) \in Effs
  BY DEF HookArgs, Select, Default, Effs, E1, E2, E3, E4, User, Libc, None

THEOREM InitOK == Init => IndInv
  BY DEF Init, IndInv, Effs, E1, E2, E3, E4, Default, Routed, EvRec, HeldRec, User, Libc, None

THEOREM Safety == IndInv => NoLibc /\ ReallocOnlyDefault /\ Counterpart /\ Routed
  BY DEF IndInv, Effs, E1, E2, E3, E4, NoLibc, ReallocOnlyDefault, Counterpart, Routed, BothCustom, Default, User, Libc, None, EvRec
LEMMA EventsRouted == \A k \in Kinds \cup {"release"} : \A h \in Effs :
                         /\ Events(k, h) \subseteq EvRec
                         /\ \A e \in Events(k, h) : (e.ev = "alloc" => e.by = h.alloc) /\ (e.ev = "free" => e.by = h.dealloc) /\ (e.ev = "realloc" => e.by = h.realloc /\ h.realloc # None)
  BY DEF Kinds, Effs, E1, E2, E3, E4, Events, Grow, EvRec, Who, User, Libc, None

THEOREM Step == IndInv /\ [Next]_vars => IndInv'
<1> SUFFICES ASSUME IndInv, [Next]_vars PROVE IndInv'
  OBVIOUS
<1>1. CASE UNCHANGED vars
  BY <1>1 DEF IndInv, vars, Routed
<1>2. ASSUME NEW a \in HookArgs, InitHooks(a) PROVE IndInv'
  <2>1. eff' \in Effs BY <1>2, SelectIn DEF InitHooks
  <2>2. held' = << >> /\ last' = {} BY <1>2 DEF InitHooks
  <2> QED BY <2>1, <2>2 DEF IndInv, Routed, HeldRec, EvRec
<1>3. ASSUME NEW k \in Kinds, Call(k) PROVE IndInv'
  <2>1. eff' = eff /\ eff \in Effs /\ last' = Events(k, eff) BY <1>3 DEF Call, IndInv
  <2>2. last' \subseteq EvRec /\ Routed' BY <2>1, EventsRouted DEF Routed
  <2>3. eff.alloc \in Who /\ eff.realloc \in Who /\ (eff.realloc # None => eff.realloc = eff.alloc)
    BY <2>1 DEF Effs, E1, E2, E3, E4, Who, User, Libc, None
  <2>4. held' \in Seq(HeldRec) /\ \A i \in DOMAIN held' : held'[i].origin = eff.alloc
    <3>1. CASE k = "hold_tree"
      <4>1. held' = Append(held, [what |-> "tree", origin |-> eff.alloc]) BY <1>3, <3>1 DEF Call
      <4>2. [what |-> "tree", origin |-> eff.alloc] \in HeldRec BY <2>3 DEF HeldRec
      <4> QED BY <4>1, <4>2 DEF IndInv
    <3>2. CASE k = "hold_text"
      <4>1. held' = Append(held, [what |-> "text", origin |-> IF eff.realloc # None THEN eff.realloc ELSE eff.alloc]) BY <1>3, <3>2 DEF Call
      <4>2. (IF eff.realloc # None THEN eff.realloc ELSE eff.alloc) = eff.alloc BY <2>3
      <4>3. [what |-> "text", origin |-> eff.alloc] \in HeldRec BY <2>3 DEF HeldRec
      <4> QED BY <4>1, <4>2, <4>3 DEF IndInv
    <3>3. CASE k # "hold_tree" /\ k # "hold_text"
      BY <1>3, <3>3 DEF Call, IndInv
    <3> QED BY <3>1, <3>2, <3>3
  <2> QED BY <2>1, <2>2, <2>4 DEF IndInv
<1>4. ASSUME NEW i \in DOMAIN held, Release(i) PROVE IndInv'
  <2>1. eff' = eff /\ eff \in Effs /\ last' = Events("release", eff) BY <1>4 DEF Release, IndInv
  <2>2. last' \subseteq EvRec /\ Routed' BY <2>1, EventsRouted DEF Routed
  <2>3. held \in Seq(HeldRec) /\ Len(held) \in Nat /\ i \in 1..Len(held) BY <1>4 DEF IndInv
  <2>4. held' = [j \in 1..(Len(held) - 1) |-> IF j < i THEN held[j] ELSE held[j + 1]] BY <1>4 DEF Release
  <2>5. held' \in Seq(HeldRec) /\ \A j \in DOMAIN held' : held'[j].origin = eff.alloc
    <3>1. \A j \in 1..(Len(held) - 1) : (IF j < i THEN held[j] ELSE held[j + 1]) \in HeldRec /\ (IF j < i THEN held[j] ELSE held[j + 1]).origin = eff.alloc
      BY <2>3 DEF IndInv
    <3>2. Len(held) - 1 \in Nat BY <2>3
    <3> QED BY <2>4, <3>1, <3>2
  <2> QED BY <2>1, <2>2, <2>5 DEF IndInv
<1> QED BY <1>1, <1>2, <1>3, <1>4 DEF Next

THEOREM Invariance == Spec => [](NoLibc /\ ReallocOnlyDefault /\ Counterpart /\ Routed)
<1>1. Spec => []IndInv BY InitOK, Step, PTL DEF Spec
<1> QED BY <1>1, Safety, PTL
=============================================================================
