------------------------------- MODULE Minify -------------------------------
(***************************************************************************)
(* cJSON_Minify (cJSON.c:2833-2928), transcribed as a machine over one        *)
(* zero-terminated buffer with a read index json and a write index into      *)
(* (0-based, as in the code).  b[k + 1] is the byte at offset k; an access    *)
(* beyond the terminator is an out-of-domain error for TLC (C13 safety).     *)
(* L1 for JSON-with-comments input: the result is exactly the input with      *)
(* comments and the whitespace outside strings removed.                      *)
(***************************************************************************)
EXTENDS PrintMachine

At0(b, k) == b[k + 1]
Set0(b, k, c) == [b EXCEPT ![k + 1] = c]
M(b, j, w) == [b |-> b, j |-> j, w |-> w]

RECURSIVE SkipOneLine(_, _)
SkipOneLine(b, j) == IF At0(b, j) = 0 THEN j ELSE IF At0(b, j) = 10 THEN j + 1 ELSE SkipOneLine(b, j + 1)
RECURSIVE SkipMultiLine(_, _)
SkipMultiLine(b, j) == IF At0(b, j) = 0 THEN j ELSE IF At0(b, j) = 42 /\ At0(b, j + 1) = 47 THEN j + 2 ELSE SkipMultiLine(b, j + 1)

RECURSIVE MinString(_, _, _)
\* the loop of minify_string after the opening quote was copied
MinString(b, j, w) ==
  IF At0(b, j) = 0 THEN M(b, j, w)
  ELSE LET b1 == Set0(b, w, At0(b, j)) IN
       IF At0(b, j) = 34 THEN M(b1, j + 1, w + 1)
       ELSE IF At0(b, j) = 92 /\ At0(b, j + 1) # 0
            THEN MinString(Set0(b1, w + 1, At0(b, j + 1)), j + 2, w + 2)      \* an escape pair is copied as a unit
            ELSE MinString(b1, j + 1, w + 1)

RECURSIVE MinLoop(_, _, _, _)
\* steps counts the iterations of the main loop (termination: it is bounded by the buffer length)
MinLoop(b, j, w, steps) ==
  LET c == At0(b, j) IN
  IF c = 0 THEN [b |-> Set0(b, w, 0), j |-> j, w |-> w, steps |-> steps]
  ELSE IF c \in {32, 9, 13, 10} THEN MinLoop(b, j + 1, w, steps + 1)
  ELSE IF c = 47 THEN
       IF At0(b, j + 1) = 47 THEN MinLoop(b, SkipOneLine(b, j + 2), w, steps + 1)
       ELSE IF At0(b, j + 1) = 42 THEN MinLoop(b, SkipMultiLine(b, j + 2), w, steps + 1)
       ELSE MinLoop(b, j + 1, w, steps + 1)
  ELSE IF c = 34 THEN LET r == MinString(Set0(b, w, 34), j + 1, w + 1) IN MinLoop(r.b, r.j, r.w, steps + 1)
  ELSE MinLoop(Set0(b, w, c), j + 1, w + 1, steps + 1)

\* s: the text without its terminator.  Result: the text left in the buffer (up to the first zero)
MinifyRun(s) == MinLoop(s \o <<0>>, 0, 0, 0)
MinText(r) == SubSeq(r.b, 1, ZeroFrom(r.b, 1) - 1)

(***************************************************************************)
(* L1                                                                       *)
(***************************************************************************)
RECURSIVE Decomment(_, _, _)
\* comments removed (outside strings); mode: 0 plain, 1 in string, 2 in string after backslash
Decomment(s, i, mode) ==
  IF i > Len(s) THEN <<>>
  ELSE LET c == s[i] nx == IF i < Len(s) THEN s[i + 1] ELSE 0 IN
  IF mode = 1 THEN <<c>> \o Decomment(s, i + 1, IF c = 92 THEN 2 ELSE IF c = 34 THEN 0 ELSE 1)
  ELSE IF mode = 2 THEN <<c>> \o Decomment(s, i + 1, 1)
  ELSE IF c = 34 THEN <<c>> \o Decomment(s, i + 1, 1)
  ELSE IF c = 47 /\ nx = 47 THEN
       LET RECURSIVE eol(_)
           eol(k) == IF k > Len(s) THEN k ELSE IF s[k] = 10 THEN k + 1 ELSE eol(k + 1)
       IN Decomment(s, eol(i + 2), 0)
  ELSE IF c = 47 /\ nx = 42 THEN
       LET RECURSIVE close(_)
           close(k) == IF k > Len(s) THEN k ELSE IF s[k] = 42 /\ k < Len(s) /\ s[k + 1] = 47 THEN k + 2 ELSE close(k + 1)
       IN <<32>> \o Decomment(s, close(i + 2), 0)          \* a block comment separates tokens like a blank
  ELSE <<c>> \o Decomment(s, i + 1, 0)

\* the buffer holds a JSON text that may carry // and block comments and whitespace between tokens
IsJsonc(s) == IsText(Decomment(s, 1, 0), "rfc")
MinDecl(s) == StripWs(Decomment(s, 1, 0), FALSE, FALSE)
=============================================================================
