------------------------------ MODULE JsonText ------------------------------
(***************************************************************************)
(* DECLARATIVE reading of JSON text (layer L1), independent of how cJSON    *)
(* scans a buffer: a grammar-directed evaluator over a byte sequence with    *)
(* two dialects                                                             *)
(*   "rfc"     RFC 8259 exactly (whitespace SP HT LF CR; strings without     *)
(*             raw control bytes; RFC number grammar; \u escapes with        *)
(*             correctly paired surrogates)                                  *)
(*   "lenient" the dialect property C03 tolerates: any byte <= 0x20 is       *)
(*             whitespace, raw control bytes inside strings, number          *)
(*             spellings the C library accepts over [0-9+-eE.]               *)
(* G(s, i, d) evaluates one value starting at 1-based position i and yields  *)
(* [ok, v, nx] (nx = position after the value).  Values are JsonValue        *)
(* records; a number is carried as its lexeme (field s), its numeric value   *)
(* is supplied by the number oracle outside TLA+ (DESIGN 3.3).               *)
(***************************************************************************)
EXTENDS JsonValue

CONSTANT MaxDepth      \* CJSON_NESTING_LIMIT (documented limit of C02)

VNumLex(lex) == [Mk("num") EXCEPT !.s = lex]

IsWs(c, d) == IF d = "rfc" THEN c \in {32, 9, 10, 13} ELSE c <= 32
IsDigit(c) == c \in 48..57
IsHex(c) == c \in 48..57 \/ c \in 65..70 \/ c \in 97..102
HexVal(c) == IF c \in 48..57 THEN c - 48 ELSE IF c \in 65..70 THEN c - 55 ELSE c - 87

RECURSIVE SkipW(_, _, _)
SkipW(s, i, d) == IF i <= Len(s) /\ IsWs(s[i], d) THEN SkipW(s, i + 1, d) ELSE i

RECURSIVE Digits(_, _)
Digits(s, i) == IF i <= Len(s) /\ IsDigit(s[i]) THEN 1 + Digits(s, i + 1) ELSE 0      \* number of digits from i

Fail == [ok |-> FALSE, v |-> VNull, nx |-> 0]
Ok(v, nx) == [ok |-> TRUE, v |-> v, nx |-> nx]
HasAt(s, i, c) == i <= Len(s) /\ s[i] = c

\* number token starting at i: RFC   -? (0 | [1-9][0-9]*) (\.[0-9]+)? ([eE][+-]?[0-9]+)?
\*                             lenient: the longest prefix strtod converts: [+-]? (digits [. digits*]? | . digits) exponent?
\* (cJSON only hands a token to strtod when it starts with '-' or a digit, and copies at most 63 bytes)
NumberEnd(s, i, d) ==
  LET j0 == IF HasAt(s, i, 45) \/ (d # "rfc" /\ HasAt(s, i, 43)) THEN i + 1 ELSE i
      d1 == Digits(s, j0)
      intOK == IF d = "rfc" THEN d1 >= 1 /\ (d1 = 1 \/ s[j0] # 48) ELSE TRUE
      j1 == j0 + d1
      hasDot == HasAt(s, j1, 46)
      d2 == IF hasDot THEN Digits(s, j1 + 1) ELSE 0
      fracOK == IF d = "rfc" THEN (hasDot => d2 >= 1) /\ TRUE ELSE TRUE
      \* rfc: a '.' not followed by a digit ends the token before the '.'
      j2 == IF hasDot /\ (d2 >= 1 \/ (d # "rfc" /\ d1 >= 1)) THEN j1 + 1 + d2 ELSE j1
      mantOK == IF d = "rfc" THEN intOK ELSE (d1 + (IF j2 > j1 THEN d2 ELSE 0)) >= 1
      hasE == j2 <= Len(s) /\ s[j2] \in {101, 69}
      j3 == IF hasE /\ j2 + 1 <= Len(s) /\ s[j2 + 1] \in {43, 45} THEN j2 + 2 ELSE j2 + 1
      d3 == IF hasE THEN Digits(s, j3) ELSE 0
      j4 == IF hasE /\ d3 >= 1 THEN j3 + d3 ELSE j2
  IN IF mantOK /\ fracOK /\ intOK THEN j4 ELSE 0            \* 0: no number here

Rem(a, m) == a - m * (a \div m)
\* UTF-8 encoding of a code point (RFC 3629)
Utf8(cp) ==
  IF cp < 128 THEN <<cp>>
  ELSE IF cp < 2048 THEN <<192 + cp \div 64, 128 + Rem(cp, 64)>>
  ELSE IF cp < 65536 THEN <<224 + cp \div 4096, 128 + Rem(cp \div 64, 64), 128 + Rem(cp, 64)>>
  ELSE <<240 + cp \div 262144, 128 + Rem(cp \div 4096, 64), 128 + Rem(cp \div 64, 64), 128 + Rem(cp, 64)>>

Hex4OK(s, i) == i + 3 <= Len(s) /\ \A k \in 0..3 : IsHex(s[i + k])
Hex4(s, i) == 4096 * HexVal(s[i]) + 256 * HexVal(s[i + 1]) + 16 * HexVal(s[i + 2]) + HexVal(s[i + 3])

\* body of a string literal from position i (just after the opening quote) up to the closing quote:
\* [ok, bytes, nx] ; the escape rules are the same in both dialects, raw bytes below 0x20 only in "lenient"
RECURSIVE StrBody(_, _, _, _)
StrBody(s, i, d, acc) ==
  IF i > Len(s) THEN [ok |-> FALSE, b |-> <<>>, nx |-> 0]
  ELSE LET c == s[i] IN
  IF c = 34 THEN [ok |-> TRUE, b |-> acc, nx |-> i + 1]
  ELSE IF c # 92 THEN (IF c < 32 /\ d = "rfc" THEN [ok |-> FALSE, b |-> <<>>, nx |-> 0] ELSE StrBody(s, i + 1, d, Append(acc, c)))
  ELSE IF i + 1 > Len(s) THEN [ok |-> FALSE, b |-> <<>>, nx |-> 0]
  ELSE LET e == s[i + 1] IN
       IF e \in {34, 92, 47} THEN StrBody(s, i + 2, d, Append(acc, e))
       ELSE IF e = 98 THEN StrBody(s, i + 2, d, Append(acc, 8))
       ELSE IF e = 102 THEN StrBody(s, i + 2, d, Append(acc, 12))
       ELSE IF e = 110 THEN StrBody(s, i + 2, d, Append(acc, 10))
       ELSE IF e = 114 THEN StrBody(s, i + 2, d, Append(acc, 13))
       ELSE IF e = 116 THEN StrBody(s, i + 2, d, Append(acc, 9))
       ELSE IF e = 117 /\ Hex4OK(s, i + 2) THEN
            LET u == Hex4(s, i + 2) IN
            IF u \in 56320..57343 THEN [ok |-> FALSE, b |-> <<>>, nx |-> 0]                 \* lone low surrogate
            ELSE IF u \in 55296..56319 THEN                                               \* high surrogate: needs \uDC00..\uDFFF
                 IF HasAt(s, i + 6, 92) /\ HasAt(s, i + 7, 117) /\ Hex4OK(s, i + 8) /\ Hex4(s, i + 8) \in 56320..57343
                 THEN StrBody(s, i + 12, d, acc \o Utf8(65536 + (u - 55296) * 1024 + (Hex4(s, i + 8) - 56320)))
                 ELSE [ok |-> FALSE, b |-> <<>>, nx |-> 0]
            ELSE StrBody(s, i + 6, d, acc \o Utf8(u))
       ELSE [ok |-> FALSE, b |-> <<>>, nx |-> 0]

Lit(s, i, w) == i + Len(w) - 1 <= Len(s) /\ \A k \in DOMAIN w : s[i + k - 1] = w[k]

RECURSIVE G(_, _, _, _)
RECURSIVE GElems(_, _, _, _, _)
RECURSIVE GMembers(_, _, _, _, _)
G(s, i, d, depth) ==
  IF i > Len(s) THEN Fail
  ELSE IF Lit(s, i, <<110, 117, 108, 108>>) THEN Ok(VNull, i + 4)
  ELSE IF Lit(s, i, <<116, 114, 117, 101>>) THEN Ok(VTrue, i + 4)
  ELSE IF Lit(s, i, <<102, 97, 108, 115, 101>>) THEN Ok(VFalse, i + 5)
  ELSE IF s[i] = 34 THEN LET r == StrBody(s, i + 1, d, <<>>) IN IF r.ok THEN Ok(VStr(r.b), r.nx) ELSE Fail
  ELSE IF s[i] = 45 \/ IsDigit(s[i]) \/ (d # "rfc" /\ s[i] \in {43, 46}) THEN       \* lenient: whatever spelling strtod converts, also "+1" and ".5"
       LET e == NumberEnd(s, i, d) IN IF e = 0 THEN Fail ELSE Ok(VNumLex(SubSeq(s, i, e - 1)), e)
  ELSE IF s[i] = 91 THEN
       IF depth >= MaxDepth THEN Fail
       ELSE LET j == SkipW(s, i + 1, d) IN
            IF HasAt(s, j, 93) THEN Ok(VArr(<<>>), j + 1) ELSE GElems(s, j, d, depth + 1, <<>>)
  ELSE IF s[i] = 123 THEN
       IF depth >= MaxDepth THEN Fail
       ELSE LET j == SkipW(s, i + 1, d) IN
            IF HasAt(s, j, 125) THEN Ok(VObj(<<>>), j + 1) ELSE GMembers(s, j, d, depth + 1, <<>>)
  ELSE Fail

\* element (ws , ws element)* ws ]   -- j at the first byte of an element
GElems(s, j, d, depth, acc) ==
  LET r == G(s, j, d, depth) IN
  IF ~r.ok THEN Fail
  ELSE LET k == SkipW(s, r.nx, d) acc2 == Append(acc, r.v) IN
       IF HasAt(s, k, 93) THEN Ok(VArr(acc2), k + 1)
       ELSE IF HasAt(s, k, 44) THEN GElems(s, SkipW(s, k + 1, d), d, depth, acc2)
       ELSE Fail

GMembers(s, j, d, depth, acc) ==
  IF ~HasAt(s, j, 34) THEN Fail
  ELSE LET kr == StrBody(s, j + 1, d, <<>>) IN
  IF ~kr.ok THEN Fail
  ELSE LET c == SkipW(s, kr.nx, d) IN
  IF ~HasAt(s, c, 58) THEN Fail
  ELSE LET r == G(s, SkipW(s, c + 1, d), d, depth) IN
  IF ~r.ok THEN Fail
  ELSE LET k == SkipW(s, r.nx, d) acc2 == Append(acc, <<kr.b, r.v>>) IN
       IF HasAt(s, k, 125) THEN Ok(VObj(acc2), k + 1)
       ELSE IF HasAt(s, k, 44) THEN GMembers(s, SkipW(s, k + 1, d), d, depth, acc2)
       ELSE Fail

\* a leading value: optional BOM (only in front of everything), whitespace, value
Bom == <<239, 187, 191>>
LeadingValue(s, d) ==
  LET i0 == IF Lit(s, 1, Bom) THEN 4 ELSE 1 IN G(s, SkipW(s, i0, d), d, 0)

\* the whole sequence is one JSON text of dialect d (value surrounded by whitespace)
IsText(s, d) == LET r == LeadingValue(s, d) IN r.ok /\ SkipW(s, r.nx, d) = Len(s) + 1
TextValue(s, d) == LeadingValue(s, d).v

RECURSIVE NoLongNumber(_)            \* documented limit: number literals of at most 63 characters
NoLongNumber(v) == (v.t = "num" => Len(v.s) <= 63) /\ \A i \in DOMAIN v.m : NoLongNumber(v.m[i].v)
RECURSIVE NoNul(_)                   \* documented limit: no \u0000 (zero byte) in strings and keys
NoNul(v) == (v.t = "str" => \A i \in DOMAIN v.s : v.s[i] # 0)
            /\ \A i \in DOMAIN v.m : (v.m[i].k # NoKey => \A j \in DOMAIN v.m[i].k : v.m[i].k[j] # 0) /\ NoNul(v.m[i].v)
WithinLimits(v) == NoLongNumber(v) /\ NoNul(v)
=============================================================================
