----------------------------- MODULE Trace_Tree -----------------------------
(***************************************************************************)
(* Reverse conformance for the tree machine (C06 C07 C11 C19): histories     *)
(* recorded from the REAL library (random call sequences on up to N nodes,   *)
(* longer and larger than the exhaustive bounds) are accepted iff every       *)
(* recorded step is a step of Tree.tla: the logged post-heap and result must  *)
(* be one of the outcomes the specification admits for that call in the       *)
(* current state, and WellFormed / no-leak hold in every state.               *)
(* Input: ndjson named by environment variable TRACE, events                  *)
(*    {"e":"Reset"}  or  {"e":"Call","a":[name,args...],"res":{...},"post":[node tuples],"q":[query answers]}   *)
(***************************************************************************)
EXTENDS Tree, TLC, Json, IOUtils, SequencesExt

Tr == ndJsonDeserialize(IOEnv.TRACE)

VARIABLES h, roots, l
vars == <<h, roots, l>>

JNode(hh, rts, i) ==
  LET r == hh[i] IN
  IF r.k = "free" THEN <<>>
  ELSE <<r.k, r.ref, r.ck, r.nx, r.pv, r.ch, r.key, r.vs, r.num, r.of, r.sib, i \in rts>>
J(hh, rts) == [i \in Node |-> JNode(hh, rts, i)]

\* the outcomes Tree.tla admits for one logged call (same action tuples as MC_Tree emits)
Dispatch(hh, rts, a) ==
  LET n == a[1] IN
  CASE n = "Create" -> CreateLeaf(hh, rts, a[2], a[3])
    [] n = "CreateNumber" -> CreateNumber(hh, rts, a[2], a[3])
    [] n = "CreateStr" -> CreateStr(hh, rts, a[2], a[3], a[4])
    [] n = "AddItemToArray" -> AddItemToArray(hh, rts, a[2], a[3])
    [] n = "AddItemToObject" -> AddItemToObject(hh, rts, a[2], a[3], a[4], FALSE, a[5])
    [] n = "AddItemToObjectCS" -> AddItemToObject(hh, rts, a[2], a[3], a[4], TRUE, a[5])
    [] n = "AddItemToObjectAlias" -> AddItemToObject(hh, rts, a[2], hh[a[3]].key, a[3], FALSE, a[4])
    [] n = "AddNewToObject" -> AddNewToObject(hh, rts, a[2], a[3], a[4], a[5], a[6], a[7])
    [] n = "DetachItemViaPointer" -> DetachItemViaPointer(hh, rts, a[2], a[3])
    [] n = "DetachItemFromArray" -> DetachItemFromArray(hh, rts, a[2], a[3])
    [] n = "DetachItemFromObject" -> DetachItemFromObject(hh, rts, a[2], a[3], FALSE)
    [] n = "DetachItemFromObjectCaseSensitive" -> DetachItemFromObject(hh, rts, a[2], a[3], TRUE)
    [] n = "Delete" -> Delete(hh, rts, a[2])
    [] n = "DeleteItemFromArray" -> DeleteAfterDetach(DetachItemFromArray(hh, rts, a[2], a[3]))
    [] n = "DeleteItemFromObject" -> DeleteAfterDetach(DetachItemFromObject(hh, rts, a[2], a[3], FALSE))
    [] n = "DeleteItemFromObjectCaseSensitive" -> DeleteAfterDetach(DetachItemFromObject(hh, rts, a[2], a[3], TRUE))
    [] n = "InsertItemInArray" -> InsertItemInArray(hh, rts, a[2], a[3], a[4])
    [] n = "ReplaceItemViaPointer" -> ReplaceItemViaPointer(hh, rts, a[2], a[3], a[4])
    [] n = "ReplaceItemInArray" -> ReplaceItemInArray(hh, rts, a[2], a[3], a[4])
    [] n = "ReplaceItemInObject" -> ReplaceItemInObject(hh, rts, a[2], a[3], a[4], FALSE, a[5])
    [] n = "ReplaceItemInObjectCaseSensitive" -> ReplaceItemInObject(hh, rts, a[2], a[3], a[4], TRUE, a[5])
    [] n = "SetNumberHelper" -> SetNumber(hh, rts, a[2], a[3])
    [] n = "SetValuestring" -> SetValuestring(hh, rts, a[2], a[3], a[4])
    [] n = "SetBoolValue" -> SetBool(hh, rts, a[2], a[3])
    [] n = "CreateIntArray" -> CreateBulkArray(hh, rts, "num", a[4], a[2], a[3], a[5])
    [] n = "CreateStringArray" -> CreateBulkArray(hh, rts, "str", a[4], a[2], a[3], a[5])
    [] n = "Duplicate" -> Duplicate(hh, rts, a[2], a[3], a[4])
    [] n = "SortObject" -> LET l2 == SortObject(hh, rts, a[2], a[3])
                              alts == SetToSeq({t \in Perms(Kids(hh, a[2])) : SortedBy(hh, t, a[3]) /\ t # Kids(l2[1].h, a[2])})
                          IN l2 \o [j \in DOMAIN alts |-> Out(Relink(hh, a[2], alts[j]), rts, [t |-> "void"])]
    [] OTHER -> <<>>

Empty == [i \in Node |-> FreeRec]
Init == h = Empty /\ roots = {} /\ l = 1

\* the model's answers to the query API in a state, in the layout the driver logs
Q(hh) == [p \in Node |->
            IF hh[p].k \in {"arr", "obj"} /\ ~hh[p].ref THEN <<Len(Kids(hh, p)), Kids(hh, p)>> ELSE <<>>]

\* a logged sort is accepted when the logged member order is a sorted permutation of the members (order among equal keys is
\* open) and the heap is exactly that order relinked -- judged directly, without enumerating permutations
SortMatches(ev) ==
  LET p == ev.a[2] cs == ev.a[3]
      RECURSIVE chain(_, _)
      chain(c, fuel) == IF c = 0 \/ fuel = 0 THEN <<>> ELSE <<c>> \o chain(ev.post[c][4], fuel - 1)
      seq == chain(ev.post[p][6], N)
  IN /\ Len(seq) = Len(Kids(h, p)) /\ {seq[i] : i \in DOMAIN seq} = {Kids(h, p)[i] : i \in DOMAIN seq}
     /\ SortedBy(h, seq, cs)
     /\ J(Relink(h, p, seq), roots) = ev.post

Matches(ev, o) == J(o.h, o.roots) = ev.post /\ o.res = ev.res /\ Q(o.h) = ev.q

CanConsume ==
  LET ev == Tr[l] IN
  IF ev.e = "Reset" THEN TRUE
  ELSE IF ev.a[1] = "SortObject" THEN SortMatches(ev)
  ELSE \E k \in DOMAIN Dispatch(h, roots, ev.a) : Matches(ev, Dispatch(h, roots, ev.a)[k])

Consume ==
  /\ l >= 1 /\ l <= Len(Tr) /\ CanConsume
  /\ LET ev == Tr[l] IN
     IF ev.e = "Reset" THEN h' = Empty /\ roots' = {} /\ l' = l + 1
     ELSE IF ev.a[1] = "SortObject"
          THEN LET p == ev.a[2]
                   RECURSIVE chain(_, _)
                   chain(c, fuel) == IF c = 0 \/ fuel = 0 THEN <<>> ELSE <<c>> \o chain(ev.post[c][4], fuel - 1)
               IN h' = Relink(h, p, chain(ev.post[p][6], N)) /\ roots' = roots /\ l' = l + 1
          ELSE LET outs == Dispatch(h, roots, ev.a)
                   k == CHOOSE k \in DOMAIN outs : Matches(ev, outs[k])
               IN h' = outs[k].h /\ roots' = outs[k].roots /\ l' = l + 1
\* the recorded step is not a step of the specification: remember where (negative position) and stop
Reject == l >= 1 /\ l <= Len(Tr) /\ ~CanConsume /\ l' = 0 - l /\ UNCHANGED <<h, roots>>
Finish == (l = Len(Tr) + 1 \/ l < 0) /\ UNCHANGED vars
Next == Consume \/ Reject \/ Finish

InvWellFormed == l < 0 \/ WellFormed(h, roots)
InvNoLeak == roots = {} => Live(h) = {}
Accepted == /\ (l = Len(Tr) + 1 => PrintT(<<"TRACE-ACCEPTED", Len(Tr)>>))
            /\ (l < 0 => PrintT(<<"TRACE-REJECTED", 0 - l>>))
=============================================================================
