----------------------------- MODULE MC_Minify -----------------------------
EXTENDS Minify, TLC, Json, BigCases
CONSTANTS U, MaxLen, Emit
VARIABLES s, cnt

Byte(S) == {<<c>> : c \in S}
Units == IF U = "bytes" THEN Byte({32, 10, 47, 42, 34, 92, 97})
         ELSE Byte({91, 93, 44, 49, 32, 10, 47, 42}) \cup {<<34, 97, 34>>, <<34, 92, 92, 34>>, <<34, 92, 34, 34>>, <<34, 32, 34>>, <<34, 47, 42, 34>>,
                                                     <<47, 47>>, <<47, 42>>, <<42, 47>>, <<47, 42, 47>>, <<34, 92, 92, 92, 34, 32, 34>>,
                                                     \* whole comments, so that every adjacency of comments and tokens lies within a few units
                                                     <<47, 42, 42, 47>>, <<47, 42, 97, 32, 42, 47>>, <<47, 47, 10>>, <<47, 47, 97, 47, 42, 10>>}

Case(t) ==
  LET r == MinifyRun(t)
      out == MinText(r)
      valid == IsJsonc(t)
  IN /\ Assert(r.j <= Len(t) /\ r.w <= r.j /\ r.steps <= Len(t) + 1, <<"C13: minify runs past the terminator or does not progress", t>>)
     /\ Assert(Len(out) <= Len(t) /\ r.b[r.w + 1] = 0, <<"C13: result longer than the input or not terminated", t>>)
     /\ Assert(valid => (out = MinDecl(t) /\ IsText(out, "rfc") /\ StrictEq(TextValue(out, "rfc"), TextValue(Decomment(t, 1, 0), "rfc"))
                         /\ MinText(MinifyRun(out)) = out),
               <<"C13: JSON with comments is not minified to its comment- and whitespace-free form", t>>)
     /\ (Emit => PrintT(ToJson(<<"M", t, out, valid>>)))

\* ---- byte tables ("table"): which bytes are transparent inside a line comment, inside a block comment, and copied inside a string.
\* The machine treats these bytes one at a time (SkipOneLine, SkipMultiLine, MinString), so the tables determine every comment / string
\* body made of them: checked here on a sample of triples, applied by the driver to all 16.6 million triples per context.
LinePat(x) == <<91, 49, 44, 47, 47>> \o x \o <<116, 10, 50, 93>>            \* [1,//<x>t\n2]
BlockPat(x) == <<91, 49, 44, 47, 42>> \o x \o <<116, 42, 47, 50, 93>>        \* [1,/*<x>t*/2]
StrPat(x) == <<91, 34, 97>> \o x \o <<98, 34, 32, 93>>                       \* ["a<x>b" ]
Out12 == <<91, 49, 44, 50, 93>>
LineOk(x) == MinText(MinifyRun(LinePat(x))) = Out12
BlockOk(x) == MinText(MinifyRun(BlockPat(x))) = Out12
\* a backslash pairs with the byte after it: it is copied too, but not byte-wise, and stays out of the table
StrOk(x) == (\A i \in DOMAIN x : x[i] # 92) /\ MinText(MinifyRun(StrPat(x))) = <<91, 34, 97>> \o x \o <<98, 34, 93>>
TSample == {1, 9, 10, 13, 32, 34, 42, 47, 92, 97, 128, 168, 169, 226, 255}
TableLemma == \A c1 \in TSample : \A c2 \in TSample : \A c3 \in {10, 42, 47, 97, 168, 226} :
                /\ (LineOk(<<c1>>) /\ LineOk(<<c2>>) /\ LineOk(<<c3>>)) => LineOk(<<c1, c2, c3>>)
                /\ (BlockOk(<<c1>>) /\ BlockOk(<<c2>>) /\ BlockOk(<<c3>>) /\ ~(c1 = 42 /\ c2 = 47) /\ ~(c2 = 42 /\ c3 = 47)) => BlockOk(<<c1, c2, c3>>)
                /\ (StrOk(<<c1>>) /\ StrOk(<<c2>>) /\ StrOk(<<c3>>)) => StrOk(<<c1, c2, c3>>)
EmitTable == /\ Assert(TableLemma, "the minifier is not byte-wise on comment / string bodies")
             /\ Assert(\A c \in 1..255 : (LineOk(<<c>>) <=> c # 10) /\ BlockOk(<<c>>) /\ (StrOk(<<c>>) <=> c \notin {34, 92}), "unexpected transparency table")
             /\ (Emit => PrintT(ToJson(<<"N", [c \in 1..255 |-> IF LineOk(<<c>>) THEN 1 ELSE 0], [c \in 1..255 |-> IF BlockOk(<<c>>) THEN 1 ELSE 0], [c \in 1..255 |-> IF StrOk(<<c>>) THEN 1 ELSE 0]>>)))

Init == (IF U = "big" THEN s \in BigMinifyTexts ELSE s = <<>>) /\ cnt = 0      \* "big": every byte value in every position, long strings/comments (no growth)
Next == U # "table" /\ cnt < MaxLen /\ \E u \in Units : s' = s \o u /\ cnt' = cnt + 1
InvCase == IF U = "table" THEN EmitTable ELSE Case(s)
View == s
=============================================================================
