----------------------------- MODULE MC_Minify -----------------------------
EXTENDS Minify, TLC, Json, BigCases
CONSTANTS U, MaxLen, Emit
VARIABLES s, cnt

Byte(S) == {<<c>> : c \in S}
Units == IF U = "bytes" THEN Byte({32, 10, 47, 42, 34, 92, 97})
         ELSE Byte({91, 93, 44, 49, 32, 10, 47, 42}) \cup {<<34, 97, 34>>, <<34, 92, 92, 34>>, <<34, 92, 34, 34>>, <<34, 32, 34>>, <<34, 47, 42, 34>>,
                                                     <<47, 47>>, <<47, 42>>, <<42, 47>>, <<47, 42, 47>>, <<34, 92, 92, 92, 34, 32, 34>>,
                                                     \* whole comments, so that every adjacency of comments and tokens lies within a few units
                                                     <<47, 42, 42, 47>>, <<47, 42, 97, 32, 42, 47>>, <<47, 47, 10>>, <<47, 47, 97, 47, 42, 10>>}

Case(t) ==
  LET r == MinifyRun(t)
      out == MinText(r)
      valid == IsJsonc(t)
  IN /\ Assert(r.j <= Len(t) /\ r.w <= r.j /\ r.steps <= Len(t) + 1, <<"C13: minify runs past the terminator or does not progress", t>>)
     /\ Assert(Len(out) <= Len(t) /\ r.b[r.w + 1] = 0, <<"C13: result longer than the input or not terminated", t>>)
     /\ Assert(valid => (out = MinDecl(t) /\ IsText(out, "rfc") /\ StrictEq(TextValue(out, "rfc"), TextValue(Decomment(t, 1, 0), "rfc"))
                         /\ MinText(MinifyRun(out)) = out),
               <<"C13: JSON with comments is not minified to its comment- and whitespace-free form", t>>)
     /\ (Emit => PrintT(ToJson(<<"M", t, out, valid>>)))

Init == (IF U = "big" THEN s \in BigMinifyTexts ELSE s = <<>>) /\ cnt = 0      \* "big": every byte value in every position, long strings/comments (no growth)
Next == cnt < MaxLen /\ \E u \in Units : s' = s \o u /\ cnt' = cnt + 1
InvCase == Case(s)
View == s
=============================================================================
