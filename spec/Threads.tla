------------------------------- MODULE Threads -------------------------------
(***************************************************************************)
(* C20: N threads, each runs a sequence of library calls on thread-private   *)
(* trees and buffers.  The only state the calls can share is the writable    *)
(* static storage of the two translation units:                              *)
(*     global_error (json, position)   cJSON.c:92                            *)
(*     global_hooks (allocate, deallocate, reallocate)   cJSON.c:186          *)
(*     cJSON_Version.version   cJSON.c:126                                   *)
(* Footprint gives, per class of public call, the ordered accesses to these   *)
(* objects; one access is one atomic step, and there is no synchronisation.   *)
(* The table is bound to the object code by tools/footprint.py.               *)
(***************************************************************************)
EXTENDS Integers, Sequences, FiniteSets, TLC, Json

CONSTANTS NThreads, MaxCalls, Admitted, Emit     \* Admitted: the call classes threads may use

Loc == {"global_error", "global_hooks", "version"}
R(l) == [loc |-> l, rw |-> "r"]
W(l) == [loc |-> l, rw |-> "w"]

\* ordered global accesses of each call class (thread-private memory is not modelled: it cannot conflict)
Footprint ==
  [ parse_ok     |-> <<W("global_error"), R("global_hooks")>>,                       \* reset of the error position, hooks snapshot
    parse_fail   |-> <<W("global_error"), R("global_hooks"), W("global_error")>>,    \* ... and publication of the error position
    print        |-> <<R("global_hooks")>>,
    create_edit  |-> <<R("global_hooks")>>,
    compare      |-> <<>>,
    duplicate    |-> <<R("global_hooks")>>,
    minify       |-> <<>>,
    patch_utils  |-> <<R("global_hooks")>>,
    delete       |-> <<R("global_hooks")>>,
    \* calls the documented conditions exclude from concurrent use
    get_error    |-> <<R("global_error")>>,
    init_hooks   |-> <<W("global_hooks")>>,
    version      |-> <<W("version"), R("version")>> ]

Documented == {"parse_ok", "parse_fail", "print", "create_edit", "compare", "duplicate", "minify", "patch_utils", "delete"}
Classes == DOMAIN Footprint

Thread == 1..NThreads
VARIABLES prog,     \* prog[t]: the calls thread t makes
          pc,       \* pc[t] = <<call index, access index>>
          mem,      \* mem[l]: who wrote l last (0 = initial value)
          seen,     \* seen[t]: the values thread t read from shared storage (its results may depend on them)
          acc       \* every access made so far: [t, loc, rw]
vars == <<prog, pc, mem, seen, acc>>

Programs == UNION {[1..n -> Admitted] : n \in 1..MaxCalls}
Init == /\ prog \in [Thread -> Programs]
        /\ pc = [t \in Thread |-> <<1, 1>>] /\ mem = [l \in Loc |-> 0] /\ seen = [t \in Thread |-> <<>>] /\ acc = {}

Done(t) == pc[t][1] > Len(prog[t])
Step(t) ==
  /\ ~Done(t)
  /\ LET fp == Footprint[prog[t][pc[t][1]]] i == pc[t][2] IN
     IF i > Len(fp) THEN /\ pc' = [pc EXCEPT ![t] = <<pc[t][1] + 1, 1>>] /\ UNCHANGED <<prog, mem, seen, acc>>
     ELSE LET a == fp[i] IN
          /\ pc' = [pc EXCEPT ![t] = <<pc[t][1], i + 1>>]
          /\ acc' = acc \cup {[t |-> t, loc |-> a.loc, rw |-> a.rw]}
          /\ mem' = IF a.rw = "w" THEN [mem EXCEPT ![a.loc] = t] ELSE mem
          /\ seen' = IF a.rw = "r" THEN [seen EXCEPT ![t] = Append(@, mem[a.loc])] ELSE seen
          /\ UNCHANGED prog
Next == \E t \in Thread : Step(t)
Spec == Init /\ [][Next]_vars

\* two accesses of different threads to one object, at least one a write: nothing orders them
Races == {l \in Loc : \E x, y \in acc : x.loc = l /\ y.loc = l /\ x.t # y.t /\ (x.rw = "w" \/ y.rw = "w")}
\* C20: the only conflicting accesses are on the documented global error position ...
OnlyErrorRaces == Races \subseteq {"global_error"}
\* ... and every thread gets the results it would get alone: whatever its results can depend on has its initial value
NonInterference == \A t \in Thread : \A i \in DOMAIN seen[t] : seen[t][i] = 0

\* the table, for the binding to the object code
Table == [c \in Classes |-> [l \in Loc |-> [r |-> \E i \in DOMAIN Footprint[c] : Footprint[c][i] = R(l), w |-> \E i \in DOMAIN Footprint[c] : Footprint[c][i] = W(l)]]]
EmitTable == Emit => PrintT(ToJson([table |-> Table, documented |-> Documented]))
ASSUME EmitTable
=============================================================================
