------------------------------- MODULE Pointer -------------------------------
(***************************************************************************)
(* RFC 6901 JSON Pointer.                                                   *)
(*  L1  Resolve(doc, p): the node the RFC designates, as a path of member    *)
(*      positions (<<>> = root), or failure; PointerTo(doc, path): the        *)
(*      pointer text for a node.                                             *)
(*  L2  transcription of get_item_from_pointer, decode_array_index_from_     *)
(*      pointer, compare_pointers and cJSONUtils_FindPointerFromObjectTo     *)
(*      (cJSON_Utils.c:120-346).                                             *)
(***************************************************************************)
EXTENDS JsonValue

NoPath == <<-1>>

(***************************************************************************)
(* L1                                                                       *)
(***************************************************************************)
RECURSIVE SplitTokens(_, _, _)
\* p starts with '/': the reference tokens between the slashes
SplitTokens(p, i, cur) ==
  IF i > Len(p) THEN <<cur>>
  ELSE IF p[i] = 47 THEN <<cur>> \o SplitTokens(p, i + 1, <<>>)
  ELSE SplitTokens(p, i + 1, Append(cur, p[i]))
Tokens(p) == SplitTokens(p, 2, <<>>)           \* p[1] = '/'

RECURSIVE Unescape(_)
\* ~0 -> ~, ~1 -> / ; <<-1>> for an invalid escape
Unescape(t) ==
  IF t = <<>> THEN <<>>
  ELSE IF t[1] # 126 THEN (LET r == Unescape(Tail(t)) IN IF r = <<-1>> THEN r ELSE <<t[1]>> \o r)
  ELSE IF Len(t) < 2 \/ t[2] \notin {48, 49} THEN <<-1>>
  ELSE LET r == Unescape(SubSeq(t, 3, Len(t))) IN IF r = <<-1>> THEN r ELSE <<IF t[2] = 48 THEN 126 ELSE 47>> \o r

IsIndexToken(t) == /\ t # <<>> /\ \A i \in DOMAIN t : t[i] \in 48..57
                   /\ (Len(t) = 1 \/ t[1] # 48)
                   /\ Len(t) <= 9                                   \* larger indices designate nothing in any document considered
RECURSIVE DecVal(_)
DecVal(t) == IF t = <<>> THEN 0 ELSE 10 * DecVal(SubSeq(t, 1, Len(t) - 1)) + (t[Len(t)] - 48)

ValidPointer(p) == p = <<>> \/ (p[1] = 47 /\ \A t \in RangeOf(Tokens(p)) : Unescape(t) # <<-1>>)

RECURSIVE Walk(_, _, _)
\* follow tokens from value v; returns the path (positions) or NoPath
Walk(v, toks, acc) ==
  IF toks = <<>> THEN acc
  ELSE LET t == toks[1] IN
       IF v.t = "obj" THEN
            LET key == Unescape(t)
                hits == {i \in DOMAIN v.m : v.m[i].k = key} IN
            IF key = <<-1>> \/ hits = {} THEN NoPath
            ELSE LET i == CHOOSE i \in hits : \A j \in hits : i <= j IN Walk(v.m[i].v, Tail(toks), Append(acc, i))
       ELSE IF v.t = "arr" THEN
            IF IsIndexToken(t) /\ DecVal(t) < Len(v.m) THEN Walk(v.m[DecVal(t) + 1].v, Tail(toks), Append(acc, DecVal(t) + 1))
            ELSE NoPath
       ELSE NoPath

Resolve(doc, p) == IF p = <<>> THEN <<>> ELSE IF p[1] # 47 THEN NoPath ELSE Walk(doc, Tokens(p), <<>>)

RECURSIVE ValueAt(_, _)
ValueAt(v, path) == IF path = <<>> THEN v ELSE ValueAt(v.m[path[1]].v, Tail(path))

RECURSIVE DecText(_)
DecText(n) == IF n < 10 THEN <<48 + n>> ELSE DecText(n \div 10) \o <<48 + (n - 10 * (n \div 10))>>
RECURSIVE EscapeKey(_)
EscapeKey(k) == IF k = <<>> THEN <<>> ELSE (IF k[1] = 126 THEN <<126, 48>> ELSE IF k[1] = 47 THEN <<126, 49>> ELSE <<k[1]>>) \o EscapeKey(Tail(k))
RECURSIVE PointerTo(_, _)
PointerTo(v, path) ==
  IF path = <<>> THEN <<>>
  ELSE (IF v.t = "arr" THEN <<47>> \o DecText(path[1] - 1) ELSE <<47>> \o EscapeKey(v.m[path[1]].k)) \o PointerTo(v.m[path[1]].v, Tail(path))

RECURSIVE PathsOf(_)
PathsOf(v) == {<<>>} \cup UNION {{<<i>> \o q : q \in PathsOf(v.m[i].v)} : i \in DOMAIN v.m}

(***************************************************************************)
(* L2                                                                       *)
(* strings are C strings: ptr is the pointer text, C(ptr, i) the byte at     *)
(* 0-based offset i (0 at and beyond the end)                                 *)
(***************************************************************************)
C(s, i) == IF i + 1 <= Len(s) THEN s[i + 1] ELSE 0
ToLower(c) == IF c \in 65..90 THEN c + 32 ELSE c

RECURSIVE ComparePointers(_, _, _, _, _)
\* compare_pointers(name, pointer): ni / pi are the current offsets
ComparePointers(name, ni, ptr, pi, cs) ==
  IF C(name, ni) # 0 /\ C(ptr, pi) # 0 /\ C(ptr, pi) # 47
  THEN IF C(ptr, pi) = 126
       THEN IF (C(ptr, pi + 1) # 48 \/ C(name, ni) # 126) /\ (C(ptr, pi + 1) # 49 \/ C(name, ni) # 47) THEN FALSE
            ELSE ComparePointers(name, ni + 1, ptr, pi + 2, cs)
       ELSE IF (~cs /\ ToLower(C(name, ni)) # ToLower(C(ptr, pi))) \/ (cs /\ C(name, ni) # C(ptr, pi)) THEN FALSE
            ELSE ComparePointers(name, ni + 1, ptr, pi + 1, cs)
  ELSE ((C(ptr, pi) # 0 /\ C(ptr, pi) # 47) = (C(name, ni) # 0))

\* decode_array_index_from_pointer: [ok, index]
DecodeIndex(ptr, pi) ==
  IF C(ptr, pi) = 48 /\ C(ptr, pi + 1) # 0 /\ C(ptr, pi + 1) # 47 THEN [ok |-> FALSE, idx |-> 0]
  ELSE LET RECURSIVE run(_)
           run(k) == IF C(ptr, pi + k) \in 48..57 THEN run(k + 1) ELSE k
           n == run(0) IN
       IF n = 0 \/ n > 9 \/ (C(ptr, pi + n) # 0 /\ C(ptr, pi + n) # 47) THEN [ok |-> FALSE, idx |-> 0]     \* n > 9: beyond any array considered (the code rejects on overflow of size_t)
       ELSE [ok |-> TRUE, idx |-> DecVal(SubSeq(ptr, pi + 1, pi + n))]

RECURSIVE SkipToken(_, _)
SkipToken(ptr, pi) == IF C(ptr, pi) # 0 /\ C(ptr, pi) # 47 THEN SkipToken(ptr, pi + 1) ELSE pi

RECURSIVE GetItem(_, _, _, _, _)
\* get_item_from_pointer: v current element, path accumulated; returns path or NoPath
GetItem(v, path, ptr, pi, cs) ==
  IF C(ptr, pi) = 47
  THEN LET p1 == pi + 1 IN
       IF v.t = "arr" THEN
            LET d == DecodeIndex(ptr, p1) IN
            IF ~d.ok THEN NoPath
            ELSE IF d.idx >= Len(v.m) THEN NoPath                       \* get_array_item gives NULL, the loop ends
            ELSE GetItem(v.m[d.idx + 1].v, Append(path, d.idx + 1), ptr, SkipToken(ptr, p1), cs)
       ELSE IF v.t = "obj" THEN
            LET hits == {i \in DOMAIN v.m : ComparePointers(v.m[i].k, 0, ptr, p1, cs)} IN
            IF hits = {} THEN NoPath
            ELSE LET i == CHOOSE i \in hits : \A j \in hits : i <= j IN
                 GetItem(v.m[i].v, Append(path, i), ptr, SkipToken(ptr, p1), cs)
       ELSE NoPath
  ELSE IF C(ptr, pi) # 0 THEN NoPath                                   \* text that does not start with '/'
  ELSE path

GetPointerImpl(doc, ptr, cs) == GetItem(doc, <<>>, ptr, 0, cs)

RECURSIVE FindImpl(_, _)
\* cJSONUtils_FindPointerFromObjectTo: depth-first, first child whose subtree holds the target (given as a path)
FindImpl(v, target) ==
  IF target = <<>> THEN <<>>
  ELSE LET i == target[1] rest == FindImpl(v.m[i].v, Tail(target)) IN
       IF v.t = "arr" THEN <<47>> \o DecText(i - 1) \o rest
       ELSE <<47>> \o EscapeKey(v.m[i].k) \o rest
=============================================================================
