---------------------------- MODULE MC_UtilCheck ----------------------------
(***************************************************************************)
(* Reverse conformance for generated patches (C17 C18): the patches and      *)
(* merge patches the real library generated are judged by the declarative    *)
(* RFC evaluators: applying the recorded patch to 'from' must give 'to',     *)
(* and a JSON Patch is empty exactly when the documents are equal.           *)
(* Input: ndjson file named by environment variable RECORDS with records     *)
(* {k: "patch" | "merge", from, to, p}  (p = ["none"] for a NULL merge patch) *)
(***************************************************************************)
EXTENDS PatchImpl, TLC, Json, IOUtils

Cases == ndJsonDeserialize(IOEnv.RECORDS)

RECURSIVE FromJV(_)
FromJV(x) ==
  CASE x[1] = "n" -> VNull [] x[1] = "t" -> VTrue [] x[1] = "f" -> VFalse
    [] x[1] = "#" -> VNum(x[2]) [] x[1] = "s" -> VStr(x[2]) [] x[1] = "r" -> VRaw(x[2])
    [] x[1] = "a" -> VArr([i \in DOMAIN x[2] |-> FromJV(x[2][i])])
    [] x[1] = "o" -> VObj([i \in DOMAIN x[2] |-> <<x[2][i][1], FromJV(x[2][i][2])>>])
    [] OTHER -> Mk("invalid")

KeyLessCS(x, y, cs) == IF cs THEN KeyLessB(x, y) ELSE KeyLessB(FoldB(x), FoldB(y))
\* recorded outcome of cJSONUtils_SortObject[CaseSensitive]: member i of "before" carried key before[i]; "after" lists
\* the members (by their original position) in the new order
SortVerdict(c) ==
  LET n == Len(c.before) IN
  /\ Len(c.after) = n /\ {c.after[i] : i \in 1..n} = 1..n                                 \* exactly the same member nodes
  /\ \A i \in 1..(n - 1) : ~KeyLessCS(c.before[c.after[i + 1]], c.before[c.after[i]], c.cs)   \* keys non-decreasing

Verdict(c) ==
  IF c.k = "sort" THEN SortVerdict(c) ELSE
  LET from == FromJV(c.from) to == FromJV(c.to) IN
  IF c.k = "patch"
  THEN LET p == FromJV(c.p) r == ApplyRFC(from, p) IN
       /\ p.t = "arr"
       /\ r.ok /\ SemEq(r.doc, to, TRUE)
       /\ (p.m = <<>>) <=> SemEq(from, to, TRUE)
  ELSE IF c.p[1] = "none" THEN SemEq(from, to, TRUE)
       ELSE SemEq(MergeRFC(from, FromJV(c.p)), to, TRUE)

VARIABLE i
Init == i = 1
Next == i < Len(Cases) /\ i' = i + 1
Judge == i <= Len(Cases) => PrintT(<<"V", i, Verdict(Cases[i])>>)
=============================================================================
