----------------------------- MODULE MC_Pointer -----------------------------
(* every (document, pointer text): transcription = RFC 6901 resolution (C15); every (document, node): the
   constructed pointer is the canonical escaped one and resolves back to the node *)
EXTENDS Pointer, TLC, Json
CONSTANTS MaxLen, Emit
VARIABLES doc, ptr, phase

K(s) == s
N1 == VNum(N_one)
Docs == {
  VObj(<< <<<<97>>, VArr(<<N1, VNull, VObj(<< <<<<47>>, N1>> >>)>>)>>, <<<<>>, VObj(<< <<<<126>>, N1>>, <<<<48>>, VNull>> >>)>>,
          <<<<97, 47, 98>>, N1>>, <<<<109, 126, 110>>, VNull>>, <<<<48, 49>>, N1>>, <<<<65>>, VTrue>>, <<<<49>>, VArr(<<VFalse>>)>> >>),
  VArr(<< VArr(<<N1, VNull>>), VObj(<< <<<<97>>, N1>>, <<<<126, 49>>, VNull>> >>), N1 >>),
  VArr([i \in 1..12 |-> IF i = 11 THEN VArr(<<VNull, N1>>) ELSE N1]),
  VObj(<< <<<<47>>, VObj(<< <<<<47>>, N1>> >>)>>, <<<<126>>, VArr(<<VNull>>)>>, <<<<126, 48>>, N1>>, <<<<45>>, N1>>, <<<<50>>, VArr(<<N1, N1, N1>>)>> >>),
  N1, VArr(<<>>), VObj(<<>>), VStr(<<97>>)
}
Alpha == {47, 126, 48, 49, 50, 97, 65, 45}
LongPtrs == {<<47>> \o [i \in 1..20 |-> IF i = 1 THEN 49 ELSE 48], <<47, 49, 56, 52, 52, 54, 55, 52, 52, 48, 55, 51, 55, 48, 57, 53, 53, 49, 54, 49, 55>>,
             <<47, 97, 47, 50, 47, 126, 49>>, <<47, 47, 126, 48>>, <<47, 109, 126, 48, 110>>, <<47, 97, 126, 49, 98>>, <<47, 48, 49>>, <<47, 49, 47, 48>>, <<47, 49, 48, 47, 49>>}

Init == doc \in Docs /\ ptr = <<>> /\ phase = 0
Grow == /\ phase = 0 /\ Len(ptr) < MaxLen /\ \E c \in Alpha : ptr' = Append(ptr, c)
        /\ UNCHANGED <<doc, phase>>
Jump == /\ phase = 0 /\ ptr = <<>> /\ \E p \in LongPtrs : ptr' = p
        /\ phase' = 1 /\ UNCHANGED doc
Next == Grow \/ Jump

CheckLookup ==
  LET want == Resolve(doc, ptr) got == GetPointerImpl(doc, ptr, TRUE) IN
  /\ Assert(want = got, <<"C15: lookup transcription differs from RFC 6901", doc, ptr, want, got>>)
  /\ (Emit => PrintT(ToJson(<<"G", JV(doc), ptr, want # NoPath, IF want = NoPath THEN <<>> ELSE want, GetPointerImpl(doc, ptr, FALSE)>>)))
CheckFind ==
  ptr = <<>> =>
    \A path \in PathsOf(doc) :
       LET p == FindImpl(doc, path) IN
       /\ Assert(p = PointerTo(doc, path) /\ Resolve(doc, p) = path /\ ValidPointer(p), <<"C15: constructed pointer does not resolve back / is not canonical", doc, path, p>>)
       /\ (Emit => PrintT(ToJson(<<"F", JV(doc), path, p>>)))
InvCase == CheckLookup /\ CheckFind
=============================================================================
