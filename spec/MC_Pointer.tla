----------------------------- MODULE MC_Pointer -----------------------------
(* every (document, pointer text): transcription = RFC 6901 resolution (C15); every (document, node): the
   constructed pointer is the canonical escaped one and resolves back to the node *)
EXTENDS Pointer, TLC, Json
CONSTANTS MaxLen, Emit
VARIABLES doc, ptr, phase

K(s) == s
N1 == VNum(N_one)
Docs == {
  VObj(<< <<<<97>>, VArr(<<N1, VNull, VObj(<< <<<<47>>, N1>> >>)>>)>>, <<<<>>, VObj(<< <<<<126>>, N1>>, <<<<48>>, VNull>> >>)>>,
          <<<<97, 47, 98>>, N1>>, <<<<109, 126, 110>>, VNull>>, <<<<48, 49>>, N1>>, <<<<65>>, VTrue>>, <<<<49>>, VArr(<<VFalse>>)>> >>),
  VArr(<< VArr(<<N1, VNull>>), VObj(<< <<<<97>>, N1>>, <<<<126, 49>>, VNull>> >>), N1 >>),
  VArr([i \in 1..12 |-> IF i = 11 THEN VArr(<<VNull, N1>>) ELSE N1]),
  VObj(<< <<<<47>>, VObj(<< <<<<47>>, N1>> >>)>>, <<<<126>>, VArr(<<VNull>>)>>, <<<<126, 48>>, N1>>, <<<<45>>, N1>>, <<<<50>>, VArr(<<N1, N1, N1>>)>> >>),
  N1, VArr(<<>>), VObj(<<>>), VStr(<<97>>)
}
Alpha == {47, 126, 48, 49, 50, 97, 65, 45}
LongPtrs == {<<47>> \o [i \in 1..20 |-> IF i = 1 THEN 49 ELSE 48], <<47, 49, 56, 52, 52, 54, 55, 52, 52, 48, 55, 51, 55, 48, 57, 53, 53, 49, 54, 49, 55>>,
             <<47, 97, 47, 50, 47, 126, 49>>, <<47, 47, 126, 48>>, <<47, 109, 126, 48, 110>>, <<47, 97, 126, 49, 98>>, <<47, 48, 49>>, <<47, 49, 47, 48>>, <<47, 49, 48, 47, 49>>}

\* what a C library number parser would take for an index but RFC 6901 does not: sign, blanks, hexadecimal, exponent, fraction (strtoul / strtod spellings)
OddIdx == {<<43, 49>>, <<43, 48>>, <<32, 49>>, <<49, 32>>, <<9, 48>>, <<48, 120, 49>>, <<49, 101, 48>>, <<49, 46, 48>>, <<45, 49>>, <<45, 48>>, <<48, 48>>, <<49, 10>>, <<32>>, <<43>>}
OddIdxPtrs == UNION {{<<47>> \o t, <<47, 97, 47>> \o t, <<47, 48, 47>> \o t, <<47, 50, 47>> \o t} : t \in OddIdx}
\* index tokens that do not fit into 32 / 64 bits: they designate nothing, whatever they are congruent to (generated: 2^64+j, 2^32+j, 2^31.., 2^63.., ...)
BigIndexPtrs == {<<47, 49, 56, 52, 52, 54, 55, 52, 52, 48, 55, 51, 55, 48, 57, 53, 53, 49, 54, 49, 54>>, <<47, 49, 56, 52, 52, 54, 55, 52, 52, 48, 55, 51, 55, 48, 57, 53, 53, 49, 54, 49, 55>>, <<47, 49, 56, 52, 52, 54, 55, 52, 52, 48, 55, 51, 55, 48, 57, 53, 53, 49, 54, 49, 56>>, <<47, 49, 56, 52, 52, 54, 55, 52, 52, 48, 55, 51, 55, 48, 57, 53, 53, 49, 54, 49, 57>>, <<47, 49, 56, 52, 52, 54, 55, 52, 52, 48, 55, 51, 55, 48, 57, 53, 53, 49, 54, 50, 48>>, <<47, 49, 56, 52, 52, 54, 55, 52, 52, 48, 55, 51, 55, 48, 57, 53, 53, 49, 54, 50, 49>>, <<47, 49, 56, 52, 52, 54, 55, 52, 52, 48, 55, 51, 55, 48, 57, 53, 53, 49, 54, 50, 50>>, <<47, 49, 56, 52, 52, 54, 55, 52, 52, 48, 55, 51, 55, 48, 57, 53, 53, 49, 54, 50, 51>>, <<47, 49, 56, 52, 52, 54, 55, 52, 52, 48, 55, 51, 55, 48, 57, 53, 53, 49, 54, 50, 52>>, <<47, 49, 56, 52, 52, 54, 55, 52, 52, 48, 55, 51, 55, 48, 57, 53, 53, 49, 54, 50, 53>>, <<47, 49, 56, 52, 52, 54, 55, 52, 52, 48, 55, 51, 55, 48, 57, 53, 53, 49, 54, 50, 54>>, <<47, 49, 56, 52, 52, 54, 55, 52, 52, 48, 55, 51, 55, 48, 57, 53, 53, 49, 54, 50, 55>>, <<47, 49, 56, 52, 52, 54, 55, 52, 52, 48, 55, 51, 55, 48, 57, 53, 53, 49, 54, 50, 56>>, <<47, 52, 50, 57, 52, 57, 54, 55, 50, 57, 54>>, <<47, 52, 50, 57, 52, 57, 54, 55, 50, 57, 55>>, <<47, 52, 50, 57, 52, 57, 54, 55, 50, 57, 56>>, <<47, 52, 50, 57, 52, 57, 54, 55, 50, 57, 57>>, <<47, 50, 49, 52, 55, 52, 56, 51, 54, 52, 56>>, <<47, 50, 49, 52, 55, 52, 56, 51, 54, 52, 57>>, <<47, 57, 50, 50, 51, 51, 55, 50, 48, 51, 54, 56, 53, 52, 55, 55, 53, 56, 48, 56>>, <<47, 57, 50, 50, 51, 51, 55, 50, 48, 51, 54, 56, 53, 52, 55, 55, 53, 56, 49, 50>>, <<47, 53, 53, 51, 52, 48, 50, 51, 50, 50, 50, 49, 49, 50, 56, 54, 53, 52, 56, 53, 51>>, <<47, 51, 54, 56, 57, 51, 52, 56, 56, 49, 52, 55, 52, 49, 57, 49, 48, 51, 50, 52, 49>>, <<47, 57, 57, 57, 57, 57, 57, 57, 57, 57, 57, 57, 57, 57, 57, 57, 57, 57, 57, 57, 57>>, <<47, 49, 56, 52, 52, 54, 55, 52, 52, 48, 55, 51, 55, 48, 57, 53, 53, 49, 54, 49, 53>>, <<47, 52, 50, 57, 52, 57, 54, 55, 50, 57, 53>>, <<47, 48, 48>>, <<47, 49, 101, 48>>, <<47, 49, 48, 47, 49, 56, 52, 52, 54, 55, 52, 52, 48, 55, 51, 55, 48, 57, 53, 53, 49, 54, 49, 55>>, <<47, 49, 48, 47, 52, 50, 57, 52, 57, 54, 55, 50, 57, 54>>, <<47, 49, 48, 47, 49, 56, 52, 52, 54, 55, 52, 52, 48, 55, 51, 55, 48, 57, 53, 53, 49, 54, 50, 54>>}
\* tokens of 254 ... 2049 raw bytes whose escape starts at every offset near those lengths: member names a...a/b under object, array and scalar parents
TokLens == IF MaxLen >= 6 THEN {255, 256, 257, 1022, 1023, 1024, 1025, 2047, 2048} ELSE {256, 1023, 1024}
As(n) == [i \in 1..n |-> 97]
LKey(n) == As(n) \o <<47, 98>>                      \* a...a/b
LTok(n) == As(n) \o <<126, 49, 98>>                 \* a...a~1b
LadderDoc(n) == VObj(<< <<LKey(n), VObj(<< <<<<99>>, VArr(<<VNull, N1>>)>> >>)>>, <<As(n), N1>>, <<<<122>>, VArr(<<N1, VNull>>)>>, <<<<115>>, VStr(<<120>>)>> >>)
LadderPtrs(n) == {<<47>> \o LTok(n), <<47>> \o LTok(n) \o <<47, 99>>, <<47>> \o LTok(n) \o <<47, 99, 47, 49>>, <<47>> \o As(n), <<47>> \o As(n + 1), <<47>> \o As(n) \o <<126>>, <<47>> \o As(n) \o <<126, 48>>,
                  <<47, 122, 47>> \o LTok(n), <<47, 122, 47>> \o As(n), <<47, 115, 47>> \o LTok(n), <<47, 122, 47>> \o LTok(n) \o <<47, 120>>, <<47, 122, 47, 48, 47>> \o As(n)}
LadderInit == \E n \in TokLens : doc = LadderDoc(n) /\ ptr \in LadderPtrs(n) /\ phase = 1
Init == (doc \in Docs /\ ptr = <<>> /\ phase = 0) \/ LadderInit
Grow == /\ phase = 0 /\ Len(ptr) < MaxLen /\ \E c \in Alpha : ptr' = Append(ptr, c)
        /\ UNCHANGED <<doc, phase>>
Jump == /\ phase = 0 /\ ptr = <<>> /\ \E p \in LongPtrs \cup BigIndexPtrs \cup OddIdxPtrs : ptr' = p
        /\ phase' = 1 /\ UNCHANGED doc
Next == Grow \/ Jump

CheckLookup ==
  LET want == Resolve(doc, ptr) got == GetPointerImpl(doc, ptr, TRUE) IN
  /\ Assert(want = got, <<"C15: lookup transcription differs from RFC 6901", doc, ptr, want, got>>)
  /\ (Emit => PrintT(ToJson(<<"G", JV(doc), ptr, want # NoPath, IF want = NoPath THEN <<>> ELSE want, GetPointerImpl(doc, ptr, FALSE)>>)))
CheckFind ==
  (ptr = <<>> \/ (phase = 1 /\ \E n \in TokLens : doc = LadderDoc(n) /\ ptr = <<47>> \o As(n))) =>
    \A path \in PathsOf(doc) :
       LET p == FindImpl(doc, path) IN
       /\ Assert(p = PointerTo(doc, path) /\ Resolve(doc, p) = path /\ ValidPointer(p), <<"C15: constructed pointer does not resolve back / is not canonical", doc, path, p>>)
       /\ (Emit => PrintT(ToJson(<<"F", JV(doc), path, p>>)))
InvCase == CheckLookup /\ CheckFind
=============================================================================
