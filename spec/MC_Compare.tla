----------------------------- MODULE MC_Compare -----------------------------
(***************************************************************************)
(* All pairs of a finite universe of values: CompareImpl = SemEq (C12),     *)
(* symmetry, reflexivity; every pair is emitted for replay on the library.  *)
(* Init enumerates a (many initial states, so that the workers share the    *)
(* successor computation), Next enumerates b and the case flag.             *)
(***************************************************************************)
EXTENDS Compare, TLC, Json

CONSTANTS Tier, Emit

VARIABLES a, b, cs, phase

NumsQ == {N_zero, N_one, N_one_eps, N_one_2eps, N_inf, N_nan}
NumsT == {N_zero, N_negzero, N_one, N_one_eps, N_one_2eps, N_one_prev, N_big, N_big_next, N_big_far, N_dbl_max, N_inf, N_neg_inf, N_nan, N_denorm_min, N_tenth, N_tenth_next}
StrsQ == {<<>>, <<97>>, <<65>>}
KeysU == {<<97>>, <<65>>, <<98>>}          \* "a" "A" "b"

Scal(nums) == {VNull, VTrue, VFalse} \cup {VNum(n) : n \in nums} \cup {VStr(s) : s \in StrsQ} \cup {VRaw(<<97>>)}
\* level-1 values: containers of scalars; keys distinct after case folding only when the comparison folds
Small == {VNull, VTrue, VNum(N_one), VNum(N_one_eps), VStr(<<97>>)}
L1(cs0) == ArrsOver(Small, 2) \cup ObjsOver(Small, KeysU, 2, cs0)
\* level-2: containers holding level-1 containers (width <= 2, tiny leaf alphabet)
Tiny == {VNull, VNum(N_one)}
T1(cs0) == ArrsOver(Tiny, 1) \cup ObjsOver(Tiny, KeysU, 2, cs0)
L2(cs0) == ArrsOver(Tiny \cup T1(cs0), 2) \cup ObjsOver(Tiny \cup T1(cs0), {<<97>>, <<65>>}, 2, cs0)

\* beyond the small scope: very wide containers (every sibling must be visited, none counted as nesting), long strings
WideA(n, last) == VArr([i \in 1..n |-> IF i = n THEN last ELSE VNum(N_one)])
RECURSIVE Dec(_)
Dec(n) == IF n < 10 THEN <<48 + n>> ELSE Dec(n \div 10) \o <<48 + (n - 10 * (n \div 10))>>
WideO(n, last) == VObj([i \in 1..n |-> <<<<107>> \o Dec(i), IF i = n THEN last ELSE VNum(N_one)>>])
WideORev(n, last) == VObj([i \in 1..n |-> <<<<107>> \o Dec(n + 1 - i), IF i = 1 THEN last ELSE VNum(N_one)>>])
LongS(n, c) == VStr([i \in 1..n |-> IF i = n THEN c ELSE 97])
\* key-length ladder: two-member objects whose first key has n bytes and ends in k / K / l (equal, equal after folding, different), in both member
\* orders and with two values: compared with one another for the same n only (KeyLens)
LongKey(n, c) == [i \in 1..n |-> IF i = n THEN c ELSE 107]
LongKeyLens == {1, 2, 15, 16, 17, 31, 32, 33, 39, 40, 41, 63, 64, 65, 127, 128, 129, 255, 256, 257, 1023, 1024, 1025}
LongKeyObjs == {VObj(<<<<LongKey(n, c), VNum(x)>>, <<<<98>>, VNum(N_one)>>>>) : n \in LongKeyLens, c \in {107, 75, 108}, x \in {N_one, N_two}}
               \cup {VObj(<<<<<<98>>, VNum(N_one)>>, <<LongKey(n, c), VNum(x)>>>>) : n \in LongKeyLens, c \in {107, 75, 108}, x \in {N_one, N_two}}
KeyLens(v) == {Len(v.m[i].k) : i \in DOMAIN v.m}
BigVals == {WideA(n, x) : n \in {999, 1000, 1001, 5001, 10000, 10001, 12000}, x \in {VNum(N_one), VNum(N_two)}}
           \cup {WideA(9990, WideA(20, VNull)), WideA(9990, WideA(20, VTrue))}
           \cup {WideO(n, x) : n \in {300, 301}, x \in {VNum(N_one), VNull}} \cup {WideORev(n, VNum(N_one)) : n \in {300, 301}}
           \cup {LongS(n, c) : n \in {255, 256, 257, 5000}, c \in {97, 98}}
           \cup LongKeyObjs

\* every pair of catalogue numbers (tolerance boundaries at +1, -1, -2, 1.75, 2^52, 1e300, the int range, zero, non-finite), bare and inside an array
\* objects of four members in every member order with every choice of two values: permutation and mutation combined
Keys4 == <<<<97>>, <<98>>, <<99>>, <<100>>>>
Perms4 == {p \in [1..4 -> 1..4] : \A i, j \in 1..4 : i # j => p[i] # p[j]}
Perm4Objs == {VObj([i \in 1..4 |-> <<Keys4[p[i]], VNum(IF vals[p[i]] = 1 THEN N_one ELSE N_zero)>>]) : p \in Perms4, vals \in [1..4 -> {0, 1}]}
AllNums == {VNum(n) : n \in NumIds} \cup {VArr(<<VNum(n)>>) : n \in NumIds}
Universe(cs0) == IF Tier = "quick" THEN Scal(NumsQ) \cup L1(cs0)
                 ELSE IF Tier = "nums" THEN AllNums ELSE IF Tier = "fold" THEN {VNull} ELSE IF Tier = "perm4" THEN Perm4Objs
                 ELSE IF Tier = "big" THEN BigVals
                 ELSE Scal(NumsT) \cup L1(cs0) \cup L2(cs0)

Init == /\ phase = 0 /\ cs \in BOOLEAN /\ a \in Universe(cs) /\ b = VNull

Check(x, y, c) ==
  LET impl == CompareImpl(x, y, c) sem == SemEq(x, y, c) IN
  /\ Assert(impl = sem, <<"C12: cJSON_Compare transcription differs from semantic equality", x, y, c>>)
  /\ Assert(impl = CompareImpl(y, x, c), <<"C12: not symmetric", x, y, c>>)
  /\ Emit => PrintT(ToJson(<<"C", JV(x), JV(y), c, sem>>))

\* tier "fold": the ASCII case folding of key comparison as a byte table; the relation it induces on keys is byte-wise
\* (KeyEq folds every byte on its own), so the driver applies it to every pair of bytes in a key position
FoldTable == [c \in 1..255 |-> FoldB(<<c>>)[1]]
FoldLemma == \A x \in {<<120, 91, 121>>, <<88, 123, 89>>, <<120, 64>>, <<>>} : \A y \in {<<120, 123, 121>>, <<120, 91, 89>>, <<88, 96>>, <<>>} :
               KeyEq(x, y, FALSE) <=> (Len(x) = Len(y) /\ \A i \in DOMAIN x : FoldTable[x[i]] = FoldTable[y[i]])
EmitFold == /\ Assert(FoldLemma, "key folding is not byte-wise") /\ (Emit => PrintT(ToJson(<<"K", FoldTable>>)))
Next == /\ phase = 0 /\ phase' = 1 /\ UNCHANGED <<a, cs>>
        /\ b' \in (IF Tier = "nums" THEN {y \in Universe(cs) : y.t = a.t} ELSE IF Tier = "big" THEN {y \in Universe(cs) : y.t = a.t /\ Len(y.m) = Len(a.m) /\ Len(y.s) = Len(a.s) /\ KeyLens(y) = KeyLens(a)} ELSE Universe(cs))   \* wide values only against their own variants
        /\ (IF Tier = "fold" THEN (cs => EmitFold) ELSE Check(a, b', cs))

RECURSIVE HasNaN(_)
HasNaN(v) == (v.t = "num" /\ NumClass[v.n] = "nan") \/ \E i \in DOMAIN v.m : HasNaN(v.m[i].v)
\* reflexive on valid trees (NaN is equal to nothing, itself included)
Reflexive == phase = 0 => (CompareImpl(a, a, cs) <=> ~HasNaN(a))
=============================================================================
