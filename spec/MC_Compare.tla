----------------------------- MODULE MC_Compare -----------------------------
(***************************************************************************)
(* All pairs of a finite universe of values: CompareImpl = SemEq (C12),     *)
(* symmetry, reflexivity; every pair is emitted for replay on the library.  *)
(* Init enumerates a (many initial states, so that the workers share the    *)
(* successor computation), Next enumerates b and the case flag.             *)
(***************************************************************************)
EXTENDS Compare, TLC, Json

CONSTANTS Tier, Emit

VARIABLES a, b, cs, phase

NumsQ == {N_zero, N_one, N_one_eps, N_one_2eps, N_inf, N_nan}
NumsT == {N_zero, N_negzero, N_one, N_one_eps, N_one_2eps, N_one_prev, N_big, N_big_next, N_big_far, N_dbl_max, N_inf, N_neg_inf, N_nan, N_denorm_min, N_tenth, N_tenth_next}
StrsQ == {<<>>, <<97>>, <<65>>}
KeysU == {<<97>>, <<65>>, <<98>>}          \* "a" "A" "b"

Scal(nums) == {VNull, VTrue, VFalse} \cup {VNum(n) : n \in nums} \cup {VStr(s) : s \in StrsQ} \cup {VRaw(<<97>>)}
\* level-1 values: containers of scalars; keys distinct after case folding only when the comparison folds
Small == {VNull, VTrue, VNum(N_one), VNum(N_one_eps), VStr(<<97>>)}
L1(cs0) == ArrsOver(Small, 2) \cup ObjsOver(Small, KeysU, 2, cs0)
\* level-2: containers holding level-1 containers (width <= 2, tiny leaf alphabet)
Tiny == {VNull, VNum(N_one)}
T1(cs0) == ArrsOver(Tiny, 1) \cup ObjsOver(Tiny, KeysU, 2, cs0)
L2(cs0) == ArrsOver(Tiny \cup T1(cs0), 2) \cup ObjsOver(Tiny \cup T1(cs0), {<<97>>, <<65>>}, 2, cs0)

Universe(cs0) == IF Tier = "quick" THEN Scal(NumsQ) \cup L1(cs0)
                 ELSE Scal(NumsT) \cup L1(cs0) \cup L2(cs0)

Init == /\ phase = 0 /\ cs \in BOOLEAN /\ a \in Universe(cs) /\ b = VNull

Check(x, y, c) ==
  LET impl == CompareImpl(x, y, c) sem == SemEq(x, y, c) IN
  /\ Assert(impl = sem, <<"C12: cJSON_Compare transcription differs from semantic equality", x, y, c>>)
  /\ Assert(impl = CompareImpl(y, x, c), <<"C12: not symmetric", x, y, c>>)
  /\ Emit => PrintT(ToJson(<<"C", JV(x), JV(y), c, sem>>))

Next == /\ phase = 0 /\ phase' = 1 /\ UNCHANGED <<a, cs>>
        /\ b' \in Universe(cs)
        /\ Check(a, b', cs)

RECURSIVE HasNaN(_)
HasNaN(v) == (v.t = "num" /\ NumClass[v.n] = "nan") \/ \E i \in DOMAIN v.m : HasNaN(v.m[i].v)
\* reflexive on valid trees (NaN is equal to nothing, itself included)
Reflexive == phase = 0 => (CompareImpl(a, a, cs) <=> ~HasNaN(a))
=============================================================================
