------------------------------- MODULE Tree -------------------------------
(***************************************************************************)
(* The cJSON node heap and the public edit API of cJSON.h, written the way *)
(* the code does it (layer L2: pointer surgery on next/prev/child, the two *)
(* ownership bits, allocation requests in code order), together with the   *)
(* list-model meaning of every call (layer L1) and the structural          *)
(* invariants of properties C06 C07 C08 C11 C19.                            *)
(*                                                                         *)
(* One operator per public call; each returns the SET-like sequence of     *)
(* acceptable outcomes  <<[h, roots, res]>>  whose first element is what    *)
(* the code is designed to do (L2) and whose further elements are the other *)
(* outcomes the property admits (L1 freedom, e.g. under allocation failure).*)
(***************************************************************************)
EXTENDS Integers, Sequences, FiniteSets, TLC

CONSTANTS N,        \* node slots 1..N
          Keys,     \* key texts: sequences of bytes
          Strs,     \* string values: sequences of bytes
          Nums      \* number ids (opaque, see NumCatalogue)

Node  == 1..N
NULL  == 0
NoStr == <<-1>>     \* "no key" / "no valuestring" (NULL pointer)

Kinds  == {"null", "false", "true", "num", "str", "raw", "arr", "obj"}
IsCont(k) == k \in {"arr", "obj"}

FreeRec == [k |-> "free", ref |-> FALSE, ck |-> FALSE, nx |-> NULL, pv |-> NULL,
            ch |-> NULL, key |-> NoStr, vs |-> NoStr, num |-> 0, of |-> NULL, sib |-> FALSE]
\* k    type & 0xFF                    ref  cJSON_IsReference        ck  cJSON_StringIsConst
\* nx pv ch  next / prev / child       key  string (NoStr = NULL)    vs  valuestring
\* num  number id (valuedouble+valueint)
\* of   ghost: for a reference node made from an item, that item (whose child list / string it borrows)
\* sib  ghost: reference made by Create{Array,Object}Reference(child): borrows child AND its following siblings

NewRec(k) == [FreeRec EXCEPT !.k = k]

Live(hh)     == {i \in Node : hh[i].k # "free"}
FreeIds(hh)  == {i \in Node : hh[i].k = "free"}
Fresh(hh)    == CHOOSE i \in FreeIds(hh) : \A j \in FreeIds(hh) : i <= j
HasFree(hh, n) == Cardinality(FreeIds(hh)) >= n

(***************************************************************************)
(* Walking                                                                  *)
(***************************************************************************)
RECURSIVE Chain(_, _, _)
Chain(hh, c, fuel) == IF c = NULL \/ fuel = 0 THEN <<>>
                      ELSE <<c>> \o Chain(hh, hh[c].nx, fuel - 1)
Kids(hh, p) == Chain(hh, hh[p].ch, N)          \* the list model of p: its children in order

Range(s) == {s[i] : i \in DOMAIN s}

RECURSIVE Sub(_, _, _)
\* p and everything below it through OWNING child links (a reference owns nothing below it)
Sub(hh, p, fuel) == IF fuel = 0 THEN {p}
                    ELSE {p} \cup (IF hh[p].ref THEN {}
                                   ELSE UNION {Sub(hh, c, fuel - 1) : c \in Range(Kids(hh, p))})
Subtree(hh, p) == Sub(hh, p, N)

RECURSIVE SubAll(_, _, _)
\* same but following reference nodes' borrowed child links too (what printing visits)
SubAll(hh, p, fuel) == IF fuel = 0 THEN {p}
                       ELSE {p} \cup UNION {SubAll(hh, c, fuel - 1) : c \in Range(Kids(hh, p))}

OwnedKids(hh) == UNION {Range(Kids(hh, p)) : p \in {q \in Live(hh) : ~hh[q].ref}}

\* nodes some live reference depends on: they may not be released or have their child list / string changed
Pinned(hh) ==
  UNION { IF hh[r].sib
          THEN UNION {SubAll(hh, c, N) : c \in Range(Chain(hh, hh[r].of, N))}
          ELSE SubAll(hh, hh[r].of, N)
        : r \in {q \in Live(hh) : hh[q].ref /\ hh[q].of # NULL} }
\* for sib references additionally the sibling links of the borrowed chain are frozen
SibPinned(hh) == UNION { Range(Chain(hh, hh[r].of, N))
                       : r \in {q \in Live(hh) : hh[q].ref /\ hh[q].of # NULL /\ hh[q].sib} }

(***************************************************************************)
(* Invariants                                                               *)
(***************************************************************************)
ChainOK(hh, p) ==
  LET c == Kids(hh, p) IN
  /\ Cardinality(Range(c)) = Len(c)                         \* acyclic
  /\ c # <<>> => /\ hh[c[Len(c)]].nx = NULL                 \* forward links end in NULL
                 /\ hh[c[1]].pv = c[Len(c)]                 \* first child's back link designates the last
                 /\ \A k \in 2..Len(c) : hh[c[k]].pv = c[k-1]   \* back links mirror forward links
  /\ \A k \in DOMAIN c : hh[c[k]].k # "free"

WellFormed(hh, rts) ==
  /\ rts \subseteq Live(hh)
  /\ \A p \in Live(hh) :
       /\ ~hh[p].ref => ChainOK(hh, p)
       /\ ~IsCont(hh[p].k) => hh[p].ch = NULL
       /\ hh[p].k \in {"str", "raw"} <=> hh[p].vs # NoStr
  /\ \A r \in rts : hh[r].nx = NULL /\ hh[r].pv = NULL      \* detached / new / duplicated items have no sibling links
  \* every live node is owned exactly once: a caller-held root, or a child of exactly one non-reference parent
  /\ \A i \in Live(hh) :
       LET owners == {p \in Live(hh) : ~hh[p].ref /\ i \in Range(Kids(hh, p))} IN
       IF i \in rts THEN owners = {} ELSE Cardinality(owners) = 1
  \* nothing is its own ancestor through owning links
  /\ \A p \in Live(hh) : \A c \in Range(Kids(hh, p)) : ~hh[p].ref => p \notin Subtree(hh, c)
  \* references point at live memory
  /\ \A r \in Live(hh) : hh[r].ref /\ hh[r].of # NULL => hh[hh[r].of].k # "free"

\* number of allocator blocks the library holds (C07/C08 ledger): nodes + owned keys + owned strings
Blocks(hh) == Cardinality(Live(hh))
            + Cardinality({i \in Live(hh) : hh[i].key # NoStr /\ ~hh[i].ck})
            + Cardinality({i \in Live(hh) : hh[i].vs  # NoStr /\ ~hh[i].ref})

(***************************************************************************)
(* Outcomes                                                                 *)
(***************************************************************************)
Out(hh, rts, r) == [h |-> hh, roots |-> rts, res |-> r]
Same(hh, rts, r) == <<Out(hh, rts, r)>>

Fold(s) == [i \in DOMAIN s |-> IF s[i] \in 65..90 THEN s[i] + 32 ELSE s[i]]   \* tolower on ASCII

(***************************************************************************)
(* cJSON_Delete (cJSON.c:253): the item, its following siblings, and below  *)
(* each everything it owns.                                                 *)
(***************************************************************************)
RECURSIVE DelChain(_, _)
DelChain(hh, c) ==
  IF c = NULL THEN hh
  ELSE LET nx == hh[c].nx
           h1 == IF ~hh[c].ref /\ hh[c].ch # NULL THEN DelChain(hh, hh[c].ch) ELSE hh
           h2 == [h1 EXCEPT ![c] = FreeRec]
       IN DelChain(h2, nx)

\* may the caller delete / let the library release item i (and what it owns) now?
Releasable(hh, i) ==
  LET gone == Subtree(hh, i) IN
  \A r \in Live(hh) \ gone :
      hh[r].ref /\ hh[r].of # NULL =>
         (IF hh[r].sib THEN UNION {SubAll(hh, c, N) : c \in Range(Chain(hh, hh[r].of, N))}
                       ELSE SubAll(hh, hh[r].of, N)) \cap gone = {}

(***************************************************************************)
(* Create*                                                                  *)
(* f = 0: no allocation failure; f = k: the k-th request of the call fails  *)
(***************************************************************************)
NULLRES == [t |-> "null"]
Ptr(i)  == [t |-> "ptr", id |-> i]
Flag(b) == [t |-> "bool", v |-> b]
IntRes(n) == [t |-> "int", v |-> n]

CreateLeaf(hh, rts, k, f) ==      \* CreateNull/True/False/Bool/Array/Object : one request
  IF f = 1 THEN Same(hh, rts, NULLRES)
  ELSE LET i == Fresh(hh) IN <<Out([hh EXCEPT ![i] = NewRec(k)], rts \cup {i}, Ptr(i))>>

CreateNumber(hh, rts, n, f) ==
  IF f = 1 THEN Same(hh, rts, NULLRES)
  ELSE LET i == Fresh(hh) IN <<Out([hh EXCEPT ![i] = [NewRec("num") EXCEPT !.num = n]], rts \cup {i}, Ptr(i))>>

CreateStr(hh, rts, k, s, f) ==    \* CreateString / CreateRaw: node, then copy of the text (cJSON.c:2489, 2539)
  IF f \in {1, 2} THEN Same(hh, rts, NULLRES)       \* 2: node released again by cJSON_Delete
  ELSE LET i == Fresh(hh) IN <<Out([hh EXCEPT ![i] = [NewRec(k) EXCEPT !.vs = s]], rts \cup {i}, Ptr(i))>>

CreateStringReference(hh, rts, s, f) ==
  IF f = 1 THEN Same(hh, rts, NULLRES)
  ELSE LET i == Fresh(hh) IN
       <<Out([hh EXCEPT ![i] = [NewRec("str") EXCEPT !.vs = s, !.ref = TRUE]], rts \cup {i}, Ptr(i))>>

CreateContReference(hh, rts, k, c, f) ==   \* CreateObjectReference / CreateArrayReference(child)
  IF f = 1 THEN Same(hh, rts, NULLRES)
  ELSE LET i == Fresh(hh) IN
       <<Out([hh EXCEPT ![i] = [NewRec(k) EXCEPT !.ch = c, !.ref = TRUE, !.of = c, !.sib = (c # NULL)]],
             rts \cup {i}, Ptr(i))>>

(***************************************************************************)
(* add_item_to_array (cJSON.c:1985) after its NULL / self checks           *)
(***************************************************************************)
AddArr(hh, p, i) ==
  LET c == hh[p].ch IN
  IF c = NULL THEN [hh EXCEPT ![p].ch = i, ![i].pv = i, ![i].nx = NULL]
  ELSE IF hh[c].pv # NULL
       THEN LET t == hh[c].pv IN [[[hh EXCEPT ![t].nx = i] EXCEPT ![i].pv = t] EXCEPT ![c].pv = i]
       ELSE hh

AddItemToArray(hh, rts, p, i) ==
  IF p = NULL \/ i = NULL \/ p = i THEN Same(hh, rts, Flag(FALSE))
  ELSE <<Out(AddArr(hh, p, i), rts \ {i}, Flag(TRUE))>>

\* add_item_to_object (cJSON.c:2040).  key = NoStr models a NULL string argument.
\* const: AddItemToObjectCS.  One request (the key copy) unless const.
AddItemToObject(hh, rts, p, key, i, const, f) ==
  IF p = NULL \/ key = NoStr \/ i = NULL \/ p = i THEN Same(hh, rts, Flag(FALSE))
  ELSE IF ~const /\ f = 1 THEN Same(hh, rts, Flag(FALSE))
  ELSE LET h1 == [hh EXCEPT ![i].key = key, ![i].ck = const]    \* old owned key released after the copy
       IN <<Out(AddArr(h1, p, i), rts \ {i}, Flag(TRUE))>>

\* create_reference (cJSON.c:1964): memcpy of the item, key cleared, reference bit, no sibling links
RefOf(hh, i, item) == [hh EXCEPT ![i] = [hh[item] EXCEPT !.key = NoStr, !.ck = hh[item].ck, !.ref = TRUE,
                                                       !.nx = NULL, !.pv = NULL, !.of = item, !.sib = FALSE]]

AddItemReferenceToArray(hh, rts, p, item, f) ==    \* request 1: the reference node
  IF p = NULL THEN Same(hh, rts, Flag(FALSE))
  ELSE IF item = NULL \/ f = 1 THEN Same(hh, rts, Flag(FALSE))
  ELSE LET r == Fresh(hh) IN <<Out(AddArr(RefOf(hh, r, item), p, r), rts, Flag(TRUE))>>

AddItemReferenceToObject(hh, rts, p, key, item, f) ==   \* requests: 1 reference node, 2 key copy
  IF p = NULL \/ key = NoStr THEN Same(hh, rts, Flag(FALSE))
  ELSE IF item = NULL \/ f = 1 THEN Same(hh, rts, Flag(FALSE))
  ELSE IF f = 2 THEN Same(hh, rts, Flag(FALSE))          \* reference node released again
  ELSE LET r  == Fresh(hh)
           h1 == RefOf(hh, r, item)
           h2 == [h1 EXCEPT ![r].key = key, ![r].ck = FALSE]
       IN <<Out(AddArr(h2, p, r), rts, Flag(TRUE))>>

\* cJSON_Add{Null,True,False,Bool,Number,String,Raw,Object,Array}ToObject (cJSON.c:2108-2214)
\* requests: node [, text copy], key copy
AddNewToObject(hh, rts, p, key, k, s, n, f) ==
  LET hasText == k \in {"str", "raw"}
      nreq    == IF hasText THEN 3 ELSE 2
  IN IF f \in 1..(nreq - 1) THEN Same(hh, rts, NULLRES)         \* creation failed: add refused (item NULL)
     ELSE IF p = NULL \/ key = NoStr \/ f = nreq THEN Same(hh, rts, NULLRES)   \* new item deleted again
     ELSE LET i  == Fresh(hh)
              h1 == [hh EXCEPT ![i] = [NewRec(k) EXCEPT !.vs = (IF hasText THEN s ELSE NoStr),
                                                        !.num = (IF k = "num" THEN n ELSE 0),
                                                        !.key = key]]
          IN <<Out(AddArr(h1, p, i), rts, Ptr(i))>>

(***************************************************************************)
(* Detach / delete                                                          *)
(***************************************************************************)
\* cJSON_DetachItemViaPointer (cJSON.c:2216)
DetachCore(hh, p, i) ==
  LET hd == hh[p].ch
      h1 == IF i # hd THEN [hh EXCEPT ![hh[i].pv].nx = hh[i].nx] ELSE hh          \* not the first element
      h2 == IF hh[i].nx # NULL THEN [h1 EXCEPT ![hh[i].nx].pv = hh[i].pv] ELSE h1  \* not the last element
      h3 == IF i = hd THEN [h2 EXCEPT ![p].ch = hh[i].nx]                           \* first element
            ELSE IF hh[i].nx = NULL THEN [h2 EXCEPT ![hd].pv = hh[i].pv]            \* last element
            ELSE h2
  IN [h3 EXCEPT ![i].pv = NULL, ![i].nx = NULL]

DetachItemViaPointer(hh, rts, p, i) ==
  IF p = NULL \/ i = NULL THEN Same(hh, rts, NULLRES)
  ELSE IF i # hh[p].ch /\ hh[i].pv = NULL THEN Same(hh, rts, NULLRES)
  ELSE <<Out(DetachCore(hh, p, i), rts \cup {i}, Ptr(i))>>

ArrayItem(hh, p, idx) ==      \* get_array_item: NULL when out of range
  IF p = NULL \/ idx < 0 THEN NULL
  ELSE LET c == Kids(hh, p) IN IF idx + 1 <= Len(c) THEN c[idx + 1] ELSE NULL

ObjectItem(hh, p, name, cs) == \* get_object_item: first exact / first case-folded match
  IF p = NULL \/ name = NoStr THEN NULL
  ELSE LET c == Kids(hh, p)
           hit(k) == hh[c[k]].key # NoStr /\ (IF cs THEN hh[c[k]].key = name ELSE Fold(hh[c[k]].key) = Fold(name))
           m == {k \in DOMAIN c : hit(k)}
       IN IF m = {} THEN NULL ELSE c[CHOOSE k \in m : \A j \in m : k <= j]

DetachItemFromArray(hh, rts, p, idx) ==
  IF idx < 0 THEN Same(hh, rts, NULLRES) ELSE DetachItemViaPointer(hh, rts, p, ArrayItem(hh, p, idx))

DetachItemFromObject(hh, rts, p, name, cs) == DetachItemViaPointer(hh, rts, p, ObjectItem(hh, p, name, cs))

DeleteAfterDetach(outs) ==     \* cJSON_Delete(cJSON_Detach...()): void result
  LET o == outs[1] IN
  IF o.res.t = "null" THEN <<Out(o.h, o.roots, [t |-> "void"])>>
  ELSE <<Out(DelChain(o.h, o.res.id), o.roots \ {o.res.id}, [t |-> "void"])>>

Delete(hh, rts, i) ==
  IF i = NULL THEN Same(hh, rts, [t |-> "void"])
  ELSE <<Out(DelChain(hh, i), rts \ {i}, [t |-> "void"])>>

(***************************************************************************)
(* cJSON_InsertItemInArray (cJSON.c:2292)                                   *)
(***************************************************************************)
InsertItemInArray(hh, rts, p, idx, i) ==
  IF idx < 0 \/ i = NULL \/ p = i THEN Same(hh, rts, Flag(FALSE))       \* an array is not inserted into itself
  ELSE LET a == ArrayItem(hh, p, idx) IN
       IF a = NULL THEN AddItemToArray(hh, rts, p, i)
       ELSE IF a # hh[p].ch /\ hh[a].pv = NULL THEN Same(hh, rts, Flag(FALSE))
       ELSE LET h1 == [[hh EXCEPT ![i].nx = a, ![i].pv = hh[a].pv] EXCEPT ![a].pv = i]
                h2 == IF a = hh[p].ch THEN [h1 EXCEPT ![p].ch = i]
                      ELSE [h1 EXCEPT ![hh[a].pv].nx = i]
            IN <<Out(h2, rts \ {i}, Flag(TRUE))>>

(***************************************************************************)
(* Replace (cJSON.c:2326-2416)                                              *)
(***************************************************************************)
ReplaceCore(hh, p, item, r) ==
  LET h1 == [hh EXCEPT ![r].nx = hh[item].nx, ![r].pv = hh[item].pv]
      h2 == IF h1[r].nx # NULL THEN [h1 EXCEPT ![h1[r].nx].pv = r] ELSE h1
      h3 == IF hh[p].ch = item
            THEN LET h3a == IF h2[item].pv = item THEN [h2 EXCEPT ![r].pv = r] ELSE h2   \* only child
                 IN [h3a EXCEPT ![p].ch = r]
            ELSE LET h3a == IF h2[r].pv # NULL THEN [h2 EXCEPT ![h2[r].pv].nx = r] ELSE h2
                 IN IF h3a[r].nx = NULL THEN [h3a EXCEPT ![hh[p].ch].pv = r] ELSE h3a
      h4 == [h3 EXCEPT ![item].nx = NULL, ![item].pv = NULL]
  IN DelChain(h4, item)

ReplaceItemViaPointer(hh, rts, p, item, r) ==
  IF p = NULL \/ r = NULL \/ item = NULL THEN Same(hh, rts, Flag(FALSE))
  ELSE IF hh[p].ch = NULL THEN Same(hh, rts, Flag(FALSE))
  ELSE IF r = item THEN Same(hh, rts, Flag(TRUE))
  ELSE <<Out(ReplaceCore(hh, p, item, r), rts \ {r}, Flag(TRUE))>>

ReplaceItemInArray(hh, rts, p, idx, r) ==
  IF idx < 0 THEN Same(hh, rts, Flag(FALSE))
  ELSE ReplaceItemViaPointer(hh, rts, p, ArrayItem(hh, p, idx), r)

\* replace_item_in_object: one request (the key copy).  When the member is not found the call is refused;
\* the property then only demands that every container is unchanged, so the replacement (a caller-held,
\* unattached item) may or may not have received the new key: both outcomes are admitted.
ReplaceItemInObject(hh, rts, p, name, r, cs, f) ==
  IF r = NULL \/ name = NoStr THEN Same(hh, rts, Flag(FALSE))
  ELSE IF f = 1 THEN Same(hh, rts, Flag(FALSE))
  ELSE LET h1   == [hh EXCEPT ![r].key = name, ![r].ck = FALSE]
           item == ObjectItem(h1, p, name, cs)
       IN IF p = NULL \/ item = NULL \/ h1[p].ch = NULL
          THEN <<Out(h1, rts, Flag(FALSE)), Out(hh, rts, Flag(FALSE))>>
          ELSE ReplaceItemViaPointer(h1, rts, p, item, r)

(***************************************************************************)
(* Set*                                                                     *)
(***************************************************************************)
SetNumber(hh, rts, i, n) == <<Out([hh EXCEPT ![i].num = n], rts, [t |-> "num", v |-> n])>>

\* cJSON_SetValuestring (cJSON.c:403): in place when the new text is not longer, else copy (one request) and
\* release the old text.  s = NoStr models a NULL argument.
SetValuestring(hh, rts, i, s, f) ==
  IF i = NULL THEN Same(hh, rts, NULLRES)
  ELSE IF hh[i].k # "str" \/ hh[i].ref THEN Same(hh, rts, NULLRES)
  ELSE IF hh[i].vs = NoStr \/ s = NoStr THEN Same(hh, rts, NULLRES)
  ELSE IF Len(s) > Len(hh[i].vs) /\ f = 1 THEN Same(hh, rts, NULLRES)
  ELSE <<Out([hh EXCEPT ![i].vs = s], rts, [t |-> "str", v |-> s])>>

\* cJSON_SetBoolValue macro (cJSON.h): only on true/false items, returns the new type else cJSON_Invalid
SetBool(hh, rts, i, b) ==
  IF i # NULL /\ hh[i].k \in {"true", "false"}
  THEN <<Out([hh EXCEPT ![i].k = IF b THEN "true" ELSE "false"], rts, [t |-> "type", v |-> IF b THEN "true" ELSE "false"])>>
  ELSE Same(hh, rts, [t |-> "type", v |-> "invalid"])

(***************************************************************************)
(* Bulk array constructors (cJSON.c:2579-2737): array node, then per element *)
(* node [+ text copy]; tail link fixed at the end.  count < 0 or NULL data   *)
(* is refused.                                                              *)
(***************************************************************************)
RECURSIVE BulkFill(_, _, _, _, _)
BulkFill(hh, a, vals, k, prev) ==
  IF vals = <<>> THEN IF hh[a].ch # NULL THEN [hh EXCEPT ![hh[a].ch].pv = prev] ELSE hh
  ELSE LET n  == Fresh(hh)
           h1 == [hh EXCEPT ![n] = IF k = "num" THEN [NewRec("num") EXCEPT !.num = Head(vals)]
                                               ELSE [NewRec("str") EXCEPT !.vs = Head(vals)]]
           h2 == IF prev = NULL THEN [h1 EXCEPT ![a].ch = n]
                 ELSE [h1 EXCEPT ![prev].nx = n, ![n].pv = prev]
       IN BulkFill(h2, a, Tail(vals), k, n)

CreateBulkArray(hh, rts, k, vals, count, isnull, f) ==
  LET per  == IF k = "num" THEN 1 ELSE 2
      nreq == 1 + per * count
  IN IF count < 0 \/ isnull THEN Same(hh, rts, NULLRES)
     ELSE IF f \in 1..nreq THEN Same(hh, rts, NULLRES)        \* partial array deleted
     ELSE LET a == Fresh(hh)
              h1 == [hh EXCEPT ![a] = NewRec("arr")]
          IN <<Out(BulkFill(h1, a, SubSeq(vals, 1, count), k, NULL), rts \cup {a}, Ptr(a))>>

(***************************************************************************)
(* cJSON_Duplicate (cJSON.c:2742-2831)                                      *)
(* DupRec returns [h, id, n] : heap, id of the copy (NULL on failure), and  *)
(* number of allocation requests made so far (for failure injection).       *)
(* Limit is CJSON_CIRCULAR_LIMIT.                                           *)
(***************************************************************************)
CONSTANT CircularLimit

RECURSIVE DupRec(_, _, _, _, _, _)
RECURSIVE DupKids(_, _, _, _, _, _, _, _)

\* requests of one node: node; valuestring copy if any; key copy if owned
DupRec(hh, item, depth, recurse, f, n0) ==
  LET src  == hh[item]
      nNode == n0 + 1
      nVs   == IF src.vs # NoStr THEN nNode + 1 ELSE nNode
      nKey  == IF src.key # NoStr /\ ~src.ck THEN nVs + 1 ELSE nVs
  IN IF f = nNode \/ ~HasFree(hh, 1) THEN [h |-> hh, id |-> NULL, n |-> nNode, oom |-> ~(f = nNode)]
     ELSE LET i  == Fresh(hh)
              h1 == [hh EXCEPT ![i] = [FreeRec EXCEPT !.k = src.k, !.num = src.num, !.vs = src.vs,
                                                      !.key = src.key, !.ck = src.ck]]
          IN IF (src.vs # NoStr /\ f = nVs) \/ (src.key # NoStr /\ ~src.ck /\ f = nKey)
             THEN [h |-> [h1 EXCEPT ![i] = FreeRec], id |-> NULL, n |-> nKey, oom |-> FALSE]
             ELSE IF ~recurse THEN [h |-> h1, id |-> i, n |-> nKey, oom |-> FALSE]
             ELSE DupKids(h1, i, src.ch, depth, f, nKey, NULL, N)

\* the child loop: c walks the source chain, last is the last copied child
DupKids(hh, newitem, c, depth, f, n0, last, fuel) ==
  IF c = NULL
  THEN [h |-> IF hh[newitem].ch # NULL THEN [hh EXCEPT ![hh[newitem].ch].pv = last] ELSE hh,
        id |-> newitem, n |-> n0, oom |-> FALSE]
  ELSE IF depth >= CircularLimit \/ fuel = 0
       THEN [h |-> DelChain(hh, newitem), id |-> NULL, n |-> n0, oom |-> FALSE]
       ELSE LET r == DupRec(hh, c, depth + 1, TRUE, f, n0) IN
            IF r.id = NULL THEN [h |-> DelChain(r.h, newitem), id |-> NULL, n |-> r.n, oom |-> r.oom]
            ELSE LET h1 == IF last # NULL THEN [r.h EXCEPT ![last].nx = r.id, ![r.id].pv = last]
                                         ELSE [r.h EXCEPT ![newitem].ch = r.id]
                 IN DupKids(h1, newitem, hh[c].nx, depth, f, r.n, r.id, fuel - 1)

DupOom(hh, item, recurse, f) == item # NULL /\ DupRec(hh, item, 0, recurse, f, 0).oom   \* the model (not the allocator) ran out of slots
Duplicate(hh, rts, item, recurse, f) ==
  IF item = NULL THEN Same(hh, rts, NULLRES)
  ELSE LET r == DupRec(hh, item, 0, recurse, f, 0) IN
       IF r.id = NULL THEN Same(hh, rts, NULLRES)      \* everything allocated so far is released again
       ELSE <<Out(r.h, rts \cup {r.id}, Ptr(r.id))>>

\* number of allocation requests a complete duplicate makes (independent of the room the model has)
RECURSIVE DupCount(_, _, _, _, _)
DupCount(hh, item, depth, recurse, fuel) ==
  LET src == hh[item]
      own == 1 + (IF src.vs # NoStr THEN 1 ELSE 0) + (IF src.key # NoStr /\ ~src.ck THEN 1 ELSE 0)
      RECURSIVE KidsCount(_, _)
      KidsCount(c, fl) == IF c = NULL \/ fl = 0 \/ depth >= CircularLimit THEN 0
                          ELSE DupCount(hh, c, depth + 1, TRUE, fuel - 1) + KidsCount(hh[c].nx, fl - 1)
  IN IF ~recurse \/ fuel = 0 THEN own ELSE own + KidsCount(src.ch, N)

(***************************************************************************)
(* cJSON_Utils.c sort_list / sort_object (cJSON_Utils.c:484-602): merge     *)
(* sort on the sibling chain, transcribed at pointer level.                 *)
(***************************************************************************)
RECURSIVE LexLess(_, _)
LexLess(a, b) ==                       \* strcmp(a, b) < 0 on byte strings
  IF b = <<>> THEN FALSE
  ELSE IF a = <<>> THEN TRUE
  ELSE IF Head(a) # Head(b) THEN Head(a) < Head(b)
  ELSE LexLess(Tail(a), Tail(b))

KeyLess(a, b, cs) == IF cs THEN LexLess(a, b) ELSE LexLess(Fold(a), Fold(b))   \* compare_strings(a, b, cs) < 0

RECURSIVE SortedRunEnd(_, _, _, _)
\* the "test for list sorted" loop: last item of the non-decreasing prefix
SortedRunEnd(hh, c, cs, fuel) ==
  IF fuel = 0 \/ hh[c].nx = NULL \/ KeyLess(hh[hh[c].nx].key, hh[c].key, cs) THEN c   \* stops at the first descent
  ELSE SortedRunEnd(hh, hh[c].nx, cs, fuel - 1)

RECURSIVE Middle(_, _, _, _)
\* "walk two pointers to find the middle": second advances one step, cur two steps per round
Middle(hh, second, cur, fuel) ==
  IF cur = NULL \/ fuel = 0 THEN second
  ELSE LET c1 == hh[cur].nx
           c2 == IF c1 # NULL THEN hh[c1].nx ELSE NULL
       IN Middle(hh, hh[second].nx, c2, fuel - 1)

RECURSIVE MergeLists(_, _, _, _, _, _, _)
MergeLists(hh, first, second, result, tail, cs, fuel) ==
  IF first # NULL /\ second # NULL /\ fuel > 0
  THEN LET smaller == IF KeyLess(hh[first].key, hh[second].key, cs) THEN first ELSE second
           h1 == IF result = NULL THEN hh ELSE [hh EXCEPT ![tail].nx = smaller, ![smaller].pv = tail]
           res1 == IF result = NULL THEN smaller ELSE result
       IN IF smaller = first THEN MergeLists(h1, hh[first].nx, second, res1, smaller, cs, fuel - 1)
                             ELSE MergeLists(h1, first, hh[second].nx, res1, smaller, cs, fuel - 1)
  ELSE IF first # NULL
       THEN IF result = NULL THEN [h |-> hh, head |-> first]
            ELSE [h |-> [hh EXCEPT ![tail].nx = first, ![first].pv = tail], head |-> result]
  ELSE IF second # NULL
       THEN IF result = NULL THEN [h |-> hh, head |-> second]
            ELSE [h |-> [hh EXCEPT ![tail].nx = second, ![second].pv = tail], head |-> result]
  ELSE [h |-> hh, head |-> result]

RECURSIVE SortList(_, _, _, _)
SortList(hh, list, cs, fuel) ==
  IF list = NULL \/ hh[list].nx = NULL \/ fuel = 0 THEN [h |-> hh, head |-> list]
  ELSE IF hh[SortedRunEnd(hh, list, cs, N)].nx = NULL THEN [h |-> hh, head |-> list]   \* sorted lists are left unmodified
  ELSE LET second == Middle(hh, list, list, N)
           h1 == IF second # NULL /\ hh[second].pv # NULL
                 THEN [[hh EXCEPT ![hh[second].pv].nx = NULL] EXCEPT ![second].pv = NULL] ELSE hh
           r1 == SortList(h1, list, cs, fuel - 1)
           r2 == SortList(r1.h, second, cs, fuel - 1)
       IN MergeLists(r2.h, r1.head, r2.head, NULL, NULL, cs, N + 1)

\* sort_object: sort, then let the first child point to the last one again
SortObject(hh, rts, p, cs) ==
  IF p = NULL THEN Same(hh, rts, [t |-> "void"])
  ELSE LET r  == SortList(hh, hh[p].ch, cs, N)
           h1 == [r.h EXCEPT ![p].ch = r.head]
           c  == Chain(h1, r.head, N)
           h2 == IF r.head # NULL THEN [h1 EXCEPT ![r.head].pv = c[Len(c)]] ELSE h1
       IN <<Out(h2, rts, [t |-> "void"])>>

\* canonical well-formed chain for container p holding exactly seq
Relink(hh, p, seq) ==
  IF seq = <<>> THEN [hh EXCEPT ![p].ch = NULL]
  ELSE [i \in Node |->
          IF i = p THEN [hh[i] EXCEPT !.ch = seq[1]]
          ELSE IF \E k \in DOMAIN seq : seq[k] = i
               THEN LET k == CHOOSE k \in DOMAIN seq : seq[k] = i IN
                    [hh[i] EXCEPT !.nx = IF k = Len(seq) THEN NULL ELSE seq[k + 1],
                                  !.pv = IF k = 1 THEN seq[Len(seq)] ELSE seq[k - 1]]
               ELSE hh[i]]

Perms(s) == {t \in [DOMAIN s -> Range(s)] : \A a, b \in DOMAIN s : a # b => t[a] # t[b]}
KeyLeq(a, b, cs) == ~KeyLess(b, a, cs)
SortedBy(hh, seq, cs) == \A k \in 1..(Len(seq) - 1) : KeyLeq(hh[seq[k]].key, hh[seq[k + 1]].key, cs)
=============================================================================
