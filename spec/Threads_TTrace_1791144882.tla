---- MODULE Threads_TTrace_1791144882 ----
EXTENDS Threads, Sequences, TLCExt, Toolbox, Naturals, TLC

_expression ==
    LET Threads_TEExpression == INSTANCE Threads_TEExpression
    IN Threads_TEExpression!expression
----

_trace ==
    LET Threads_TETrace == INSTANCE Threads_TETrace
    IN Threads_TETrace!trace
----

_inv ==
    ~(
        TLCGet("level") = Len(_TETrace)
        /\
        acc = ({[loc |-> "global_hooks", rw |-> "r", t |-> 2], [loc |-> "global_hooks", rw |-> "w", t |-> 1]})
        /\
        pc = (<<<<1, 2>>, <<1, 2>>>>)
        /\
        mem = ([version |-> 0, global_error |-> 0, global_hooks |-> 1])
        /\
        prog = (<<<<"init_hooks">>, <<"print">>>>)
        /\
        seen = (<<<<>>, <<1>>>>)
    )
----

_init ==
    /\ prog = _TETrace[1].prog
    /\ pc = _TETrace[1].pc
    /\ acc = _TETrace[1].acc
    /\ mem = _TETrace[1].mem
    /\ seen = _TETrace[1].seen
----

_next ==
    /\ \E i,j \in DOMAIN _TETrace:
        /\ \/ /\ j = i + 1
              /\ i = TLCGet("level")
        /\ prog  = _TETrace[i].prog
        /\ prog' = _TETrace[j].prog
        /\ pc  = _TETrace[i].pc
        /\ pc' = _TETrace[j].pc
        /\ acc  = _TETrace[i].acc
        /\ acc' = _TETrace[j].acc
        /\ mem  = _TETrace[i].mem
        /\ mem' = _TETrace[j].mem
        /\ seen  = _TETrace[i].seen
        /\ seen' = _TETrace[j].seen

\* Uncomment the ASSUME below to write the states of the error trace
\* to the given file in Json format. Note that you can pass any tuple
\* to `JsonSerialize`. For example, a sub-sequence of _TETrace.
    \* ASSUME
    \*     LET J == INSTANCE Json
    \*         IN J!JsonSerialize("Threads_TTrace_1791144882.json", _TETrace)

=============================================================================

 Note that you can extract this module `Threads_TEExpression`
  to a dedicated file to reuse `expression` (the module in the 
  dedicated `Threads_TEExpression.tla` file takes precedence 
  over the module `Threads_TEExpression` below).

---- MODULE Threads_TEExpression ----
EXTENDS Threads, Sequences, TLCExt, Toolbox, Naturals, TLC

expression == 
    [
        \* To hide variables of the `Threads` spec from the error trace,
        \* remove the variables below.  The trace will be written in the order
        \* of the fields of this record.
        prog |-> prog
        ,pc |-> pc
        ,acc |-> acc
        ,mem |-> mem
        ,seen |-> seen
        
        \* Put additional constant-, state-, and action-level expressions here:
        \* ,_stateNumber |-> _TEPosition
        \* ,_progUnchanged |-> prog = prog'
        
        \* Format the `prog` variable as Json value.
        \* ,_progJson |->
        \*     LET J == INSTANCE Json
        \*     IN J!ToJson(prog)
        
        \* Lastly, you may build expressions over arbitrary sets of states by
        \* leveraging the _TETrace operator.  For example, this is how to
        \* count the number of times a spec variable changed up to the current
        \* state in the trace.
        \* ,_progModCount |->
        \*     LET F[s \in DOMAIN _TETrace] ==
        \*         IF s = 1 THEN 0
        \*         ELSE IF _TETrace[s].prog # _TETrace[s-1].prog
        \*             THEN 1 + F[s-1] ELSE F[s-1]
        \*     IN F[_TEPosition - 1]
    ]

=============================================================================



Parsing and semantic processing can take forever if the trace below is long.
 In this case, it is advised to uncomment the module below to deserialize the
 trace from a generated binary file.

\*
\*---- MODULE Threads_TETrace ----
\*EXTENDS Threads, IOUtils, TLC
\*
\*trace == IODeserialize("Threads_TTrace_1791144882.bin", TRUE)
\*
\*=============================================================================
\*

---- MODULE Threads_TETrace ----
EXTENDS Threads, TLC

trace == 
    <<
    ([acc |-> {},pc |-> <<<<1, 1>>, <<1, 1>>>>,mem |-> [version |-> 0, global_error |-> 0, global_hooks |-> 0],prog |-> <<<<"init_hooks">>, <<"print">>>>,seen |-> <<<<>>, <<>>>>]),
    ([acc |-> {[loc |-> "global_hooks", rw |-> "w", t |-> 1]},pc |-> <<<<1, 2>>, <<1, 1>>>>,mem |-> [version |-> 0, global_error |-> 0, global_hooks |-> 1],prog |-> <<<<"init_hooks">>, <<"print">>>>,seen |-> <<<<>>, <<>>>>]),
    ([acc |-> {[loc |-> "global_hooks", rw |-> "r", t |-> 2], [loc |-> "global_hooks", rw |-> "w", t |-> 1]},pc |-> <<<<1, 2>>, <<1, 2>>>>,mem |-> [version |-> 0, global_error |-> 0, global_hooks |-> 1],prog |-> <<<<"init_hooks">>, <<"print">>>>,seen |-> <<<<>>, <<1>>>>])
    >>
----


=============================================================================

---- CONFIG Threads_TTrace_1791144882 ----
CONSTANTS
    NThreads = 2
    MaxCalls = 2
    Admitted = { "print" , "init_hooks" }
    Emit = FALSE

INVARIANT
    _inv

CHECK_DEADLOCK
    \* CHECK_DEADLOCK off because of PROPERTY or INVARIANT above.
    FALSE

INIT
    _init

NEXT
    _next

CONSTANT
    _TETrace <- _trace

ALIAS
    _expression
=============================================================================
\* Generated on Sun Oct 04 20:14:43 UTC 2026