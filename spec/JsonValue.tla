----------------------------- MODULE JsonValue -----------------------------
(***************************************************************************)
(* Abstract JSON values with ORDERED object members (cJSON keeps member    *)
(* order and duplicates).  One uniform record shape so that any two values  *)
(* can be compared by TLC:                                                  *)
(*    [t, n, s, m]   t: kind   n: number id   s: bytes of a string / raw    *)
(*                   m: members, each [k: key bytes (NoKey for array        *)
(*                      elements), v: value]                                *)
(***************************************************************************)
EXTENDS Integers, Sequences, FiniteSets, NumCatalogue

NoKey == <<-1>>

Mk(t)   == [t |-> t, n |-> 0, s |-> <<>>, m |-> <<>>]
VNull   == Mk("null")
VTrue   == Mk("true")
VFalse  == Mk("false")
VNum(n) == [Mk("num") EXCEPT !.n = n]
VStr(s) == [Mk("str") EXCEPT !.s = s]
VRaw(s) == [Mk("raw") EXCEPT !.s = s]
Mem(k, v) == [k |-> k, v |-> v]
VArr(vs)  == [Mk("arr") EXCEPT !.m = [i \in DOMAIN vs |-> Mem(NoKey, vs[i])]]
VObj(kvs) == [Mk("obj") EXCEPT !.m = [i \in DOMAIN kvs |-> Mem(kvs[i][1], kvs[i][2])]]

RangeOf(s) == {s[i] : i \in DOMAIN s}
FoldB(s) == [i \in DOMAIN s |-> IF s[i] \in 65..90 THEN s[i] + 32 ELSE s[i]]      \* ASCII tolower
KeyEq(a, b, cs) == IF cs THEN a = b ELSE FoldB(a) = FoldB(b)
KeysOf(v) == [i \in DOMAIN v.m |-> v.m[i].k]
DistinctKeys(v, cs) == \A i, j \in DOMAIN v.m : i # j => ~KeyEq(v.m[i].k, v.m[j].k, cs)

\* sequences over S of length 0..n
SeqsUpTo(S, n) == UNION {[1..k -> S] : k \in 0..n}

(***************************************************************************)
(* SemEq: the semantic equality of property C12 (declarative).              *)
(* Same kind; numbers by NumEq; strings/raw byte-equal; arrays element by   *)
(* element in order; objects: same key set under the requested key          *)
(* comparison and equal values under each key, member order irrelevant.     *)
(* Meaningful for objects with distinct keys (distinct after folding when   *)
(* cs = FALSE).                                                             *)
(***************************************************************************)
RECURSIVE SemEq(_, _, _)
SemEq(a, b, cs) ==
  /\ a.t = b.t
  /\ CASE a.t = "num" -> NumEq(a.n, b.n)
       [] a.t \in {"str", "raw"} -> a.s = b.s
       [] a.t = "arr" -> /\ Len(a.m) = Len(b.m)
                         /\ \A i \in DOMAIN a.m : SemEq(a.m[i].v, b.m[i].v, cs)
       [] a.t = "obj" -> /\ \A i \in DOMAIN a.m : \E j \in DOMAIN b.m : KeyEq(a.m[i].k, b.m[j].k, cs) /\ SemEq(a.m[i].v, b.m[j].v, cs)
                         /\ \A j \in DOMAIN b.m : \E i \in DOMAIN a.m : KeyEq(a.m[i].k, b.m[j].k, cs) /\ SemEq(a.m[i].v, b.m[j].v, cs)
       [] OTHER -> TRUE

\* equality including member order (what Duplicate / print-parse round trips must preserve)
RECURSIVE StrictEq(_, _)
StrictEq(a, b) ==
  /\ a.t = b.t
  /\ CASE a.t = "num" -> a.n = b.n
       [] a.t \in {"str", "raw"} -> a.s = b.s
       [] a.t \in {"arr", "obj"} -> /\ Len(a.m) = Len(b.m)
                                    /\ \A i \in DOMAIN a.m : a.m[i].k = b.m[i].k /\ StrictEq(a.m[i].v, b.m[i].v)
       [] OTHER -> TRUE

(***************************************************************************)
(* compact nested-tuple form for emission (ToJson)                          *)
(***************************************************************************)
RECURSIVE JV(_)
JV(v) == CASE v.t = "null"  -> <<"n">>
           [] v.t = "true"  -> <<"t">>
           [] v.t = "false" -> <<"f">>
           [] v.t = "num"   -> IF v.s # <<>> THEN <<"#l", v.s>> ELSE <<"#", v.n>>    \* number given by its lexeme / by catalogue id
           [] v.t = "str"   -> <<"s", v.s>>
           [] v.t = "raw"   -> <<"r", v.s>>
           [] v.t = "arr"   -> <<"a", [i \in DOMAIN v.m |-> JV(v.m[i].v)]>>
           [] v.t = "obj"   -> <<"o", [i \in DOMAIN v.m |-> <<v.m[i].k, JV(v.m[i].v)>>]>>
           [] OTHER         -> <<"?">>

(***************************************************************************)
(* generators                                                               *)
(***************************************************************************)
ArrsOver(S, w) == {VArr(q) : q \in SeqsUpTo(S, w)}
\* objects over value set S with at most w members, keys from K, keys distinct under cs
ObjsOver(S, K, w, cs) ==
  {VObj(q) : q \in {x \in SeqsUpTo(K \X S, w) : \A i, j \in DOMAIN x : i # j => ~KeyEq(x[i][1], x[j][1], cs)}}
=============================================================================
