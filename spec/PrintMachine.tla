---------------------------- MODULE PrintMachine ----------------------------
(***************************************************************************)
(* The printer of cJSON.c.                                                  *)
(*  L1  Render(v, fmt): the text the documentation promises, declaratively   *)
(*      (layout of formatted output, escapes, number texts from the          *)
(*      catalogue), plus StripWs and the round-trip canonical form.          *)
(*  L2  the step machine over printbuffer {buffer, length, offset, depth}:   *)
(*      ensure() with the constant used at each call site, growth needed*2   *)
(*      by realloc or by allocate + copy(offset+1) + free, noalloc,          *)
(*      update_offset, and the set-up/tear-down of the four entry points.    *)
(*      Every write is checked against the current buffer length (ovf) and   *)
(*      every update_offset against a terminator (unt).                      *)
(***************************************************************************)
EXTENDS JsonText

Junk == 170          \* content of memory nobody wrote yet (never zero)
Min(a, b) == IF a < b THEN a ELSE b
Max(a, b) == IF a > b THEN a ELSE b
Rep8(c, n) == [i \in 1..n |-> c]

HexDigit(n) == IF n < 10 THEN 48 + n ELSE 87 + n          \* lower case, as "%04x" prints
\* print_string_ptr's escape table (cJSON.c:950-1038)
EscByte(c) == IF c = 34 THEN <<92, 34>> ELSE IF c = 92 THEN <<92, 92>> ELSE IF c = 8 THEN <<92, 98>>
              ELSE IF c = 12 THEN <<92, 102>> ELSE IF c = 10 THEN <<92, 110>> ELSE IF c = 13 THEN <<92, 114>>
              ELSE IF c = 9 THEN <<92, 116>>
              ELSE IF c < 32 THEN <<92, 117, 48, 48, HexDigit(c \div 16), HexDigit(Rem(c, 16))>>
              ELSE <<c>>
RECURSIVE EscBodyR(_)
EscBodyR(s) == IF s = <<>> THEN <<>> ELSE EscByte(Head(s)) \o EscBodyR(Tail(s))
NeedsEscape(c) == c < 32 \/ c = 34 \/ c = 92
\* text without anything to escape is copied as it is (this also keeps very long plain strings cheap to evaluate)
EscBody(s) == IF \A i \in DOMAIN s : ~NeedsEscape(s[i]) THEN s ELSE EscBodyR(s)
Quoted(s) == <<34>> \o EscBody(s) \o <<34>>

NumberText(v) == IF v.s # <<>> THEN v.s ELSE NumText[v.n]       \* a parsed number prints... by its catalogue id only; lexeme form kept for canonical trees

(***************************************************************************)
(* L1: Render                                                               *)
(***************************************************************************)
RECURSIVE Render(_, _, _)
RECURSIVE RenderElems(_, _, _, _)
RECURSIVE RenderMembers(_, _, _, _)
Render(v, fmt, depth) ==
  CASE v.t = "null" -> <<110, 117, 108, 108>>
    [] v.t = "true" -> <<116, 114, 117, 101>>
    [] v.t = "false" -> <<102, 97, 108, 115, 101>>
    [] v.t = "num" -> NumText[v.n]
    [] v.t = "str" -> Quoted(v.s)
    [] v.t = "raw" -> v.s
    [] v.t = "arr" -> <<91>> \o RenderElems(v.m, fmt, depth + 1, 1) \o <<93>>
    [] v.t = "obj" -> (IF fmt THEN <<123, 10>> ELSE <<123>>) \o RenderMembers(v.m, fmt, depth + 1, 1)
                      \o (IF fmt THEN Rep8(9, depth) ELSE <<>>) \o <<125>>
RenderElems(m, fmt, depth, i) ==
  IF i > Len(m) THEN <<>>
  ELSE Render(m[i].v, fmt, depth) \o (IF i < Len(m) THEN (IF fmt THEN <<44, 32>> ELSE <<44>>) ELSE <<>>) \o RenderElems(m, fmt, depth, i + 1)
RenderMembers(m, fmt, depth, i) ==
  IF i > Len(m) THEN <<>>
  ELSE (IF fmt THEN Rep8(9, depth) ELSE <<>>) \o Quoted(m[i].k) \o (IF fmt THEN <<58, 9>> ELSE <<58>>)
       \o Render(m[i].v, fmt, depth) \o (IF i < Len(m) THEN <<44>> ELSE <<>>) \o (IF fmt THEN <<10>> ELSE <<>>)
       \o RenderMembers(m, fmt, depth, i + 1)

\* removing whitespace outside strings
RECURSIVE StripWs(_, _, _)
StripWs(s, instr, esc) ==
  IF s = <<>> THEN <<>>
  ELSE LET c == Head(s) IN
       IF instr THEN <<c>> \o StripWs(Tail(s), ~(c = 34 /\ ~esc), c = 92 /\ ~esc)
       ELSE IF c \in {32, 9, 10, 13} THEN StripWs(Tail(s), FALSE, FALSE)
       ELSE <<c>> \o StripWs(Tail(s), c = 34, FALSE)

\* what a printed tree must parse back to: numbers by their printed lexeme, non-finite numbers as null (C05)
RECURSIVE Canon(_)
Canon(v) == IF v.t = "num" THEN (IF NumClass[v.n] = "fin" THEN VNumLex(NumText[v.n]) ELSE VNull)
            ELSE [v EXCEPT !.m = [i \in DOMAIN v.m |-> [k |-> v.m[i].k, v |-> Canon(v.m[i].v)]]]

(***************************************************************************)
(* L2: the buffer machine                                                    *)
(* p = [buf, off, depth, live, ovf, unt, grows, hi]                           *)
(* cfg = [noalloc, realloc, fmt]                                              *)
(***************************************************************************)
P0(len, depth) == [buf |-> Rep8(Junk, len), off |-> 0, depth |-> depth, live |-> TRUE, ovf |-> FALSE, unt |-> FALSE, grows |-> 0, hi |-> 0]
Res(ok, p) == [ok |-> ok, p |-> p]

\* ensure() (cJSON.c:458)
Ensure(p, needed, cfg) ==
  IF ~p.live THEN Res(FALSE, p)
  ELSE IF Len(p.buf) > 0 /\ p.off >= Len(p.buf) THEN Res(FALSE, p)
  ELSE LET need == needed + p.off + 1 IN
       IF need <= Len(p.buf) THEN Res(TRUE, p)
       ELSE IF cfg.noalloc THEN Res(FALSE, p)
       ELSE LET newsize == need * 2
                kept == IF cfg.realloc THEN p.buf ELSE SubSeq(p.buf, 1, Min(p.off + 1, Len(p.buf)))   \* memcpy(new, old, offset + 1)
            IN Res(TRUE, [p EXCEPT !.buf = kept \o Rep8(Junk, newsize - Len(kept)), !.grows = @ + 1])

\* write bytes at buffer + offset + skip (the pointer ensure returned); the offset itself is not moved
Put(p, bytes) ==
  IF p.off + Len(bytes) > Len(p.buf) THEN [p EXCEPT !.ovf = TRUE]
  ELSE [p EXCEPT !.buf = SubSeq(p.buf, 1, p.off) \o bytes \o SubSeq(p.buf, p.off + Len(bytes) + 1, Len(p.buf)),
                 !.hi = Max(@, p.off + Len(bytes))]
Adv(p, k) == [p EXCEPT !.off = @ + k]

RECURSIVE ZeroFrom(_, _)
ZeroFrom(buf, i) == IF i > Len(buf) THEN 0 ELSE IF buf[i] = 0 THEN i ELSE ZeroFrom(buf, i + 1)   \* 1-based index of the first zero at or after i
\* update_offset (cJSON.c:544): offset += strlen(buffer + offset)
UpdateOffset(p) == LET z == ZeroFrom(p.buf, p.off + 1) IN
                   IF z = 0 THEN [p EXCEPT !.unt = TRUE] ELSE [p EXCEPT !.off = z - 1]

\* ensure(needed), then write bytes (which include the terminator where the code writes one), then advance
EnsPut(p, needed, bytes, adv, cfg) ==
  LET e == Ensure(p, needed, cfg) IN IF ~e.ok THEN e ELSE Res(TRUE, Adv(Put(e.p, bytes), adv))

RECURSIVE PValueM(_, _, _)
RECURSIVE PArrayM(_, _, _, _)
RECURSIVE PObjectM(_, _, _, _)

PStringM(s, p, cfg) ==                  \* print_string_ptr: ensure(output_length + sizeof("\"\"")), quote body quote NUL
  LET body == EscBody(s) IN EnsPut(p, Len(body) + 3, <<34>> \o body \o <<34, 0>>, 0, cfg)

PValueM(v, p, cfg) ==
  CASE v.t = "null" -> EnsPut(p, 5, <<110, 117, 108, 108, 0>>, 0, cfg)
    [] v.t = "false" -> EnsPut(p, 6, <<102, 97, 108, 115, 101, 0>>, 0, cfg)
    [] v.t = "true" -> EnsPut(p, 5, <<116, 114, 117, 101, 0>>, 0, cfg)
    [] v.t = "num" -> LET t == NumText[v.n] IN EnsPut(p, Len(t) + 1, t \o <<0>>, Len(t), cfg)      \* print_number advances the offset itself
    [] v.t = "raw" -> EnsPut(p, Len(v.s) + 1, v.s \o <<0>>, 0, cfg)
    [] v.t = "str" -> PStringM(v.s, p, cfg)
    [] v.t = "arr" -> LET e == EnsPut(p, 1, <<91>>, 1, cfg) IN
                      IF ~e.ok THEN e ELSE PArrayM(v.m, 1, [e.p EXCEPT !.depth = @ + 1], cfg)
    [] v.t = "obj" -> LET len == IF cfg.fmt THEN 2 ELSE 1
                          e == EnsPut(p, len + 1, IF cfg.fmt THEN <<123, 10>> ELSE <<123>>, len, cfg) IN
                      IF ~e.ok THEN e ELSE PObjectM(v.m, 1, [e.p EXCEPT !.depth = @ + 1], cfg)

PArrayM(m, i, p, cfg) ==
  IF i > Len(m)
  THEN LET e == EnsPut(p, 2, <<93, 0>>, 0, cfg) IN IF ~e.ok THEN e ELSE Res(TRUE, [e.p EXCEPT !.depth = @ - 1])
  ELSE LET r == PValueM(m[i].v, p, cfg) IN
       IF ~r.ok THEN r
       ELSE LET p1 == UpdateOffset(r.p) IN
            IF i < Len(m)
            THEN LET len == IF cfg.fmt THEN 2 ELSE 1
                     e == EnsPut(p1, len + 1, IF cfg.fmt THEN <<44, 32, 0>> ELSE <<44, 0>>, len, cfg) IN
                 IF ~e.ok THEN e ELSE PArrayM(m, i + 1, e.p, cfg)
            ELSE PArrayM(m, i + 1, p1, cfg)

PObjectM(m, i, p, cfg) ==
  IF i > Len(m)
  THEN LET e == EnsPut(p, IF cfg.fmt THEN p.depth + 1 ELSE 2,
                     (IF cfg.fmt THEN Rep8(9, p.depth - 1) ELSE <<>>) \o <<125, 0>>, 0, cfg) IN
       IF ~e.ok THEN e ELSE Res(TRUE, [e.p EXCEPT !.depth = @ - 1])
  ELSE LET t == IF cfg.fmt THEN EnsPut(p, p.depth, Rep8(9, p.depth), p.depth, cfg) ELSE Res(TRUE, p) IN    \* indentation
       IF ~t.ok THEN t
       ELSE LET k == PStringM(m[i].k, t.p, cfg) IN                                                       \* key
            IF ~k.ok THEN k
            ELSE LET len == IF cfg.fmt THEN 2 ELSE 1
                     c == EnsPut(UpdateOffset(k.p), len, IF cfg.fmt THEN <<58, 9>> ELSE <<58>>, len, cfg) IN   \* ':' ['\t']
                 IF ~c.ok THEN c
                 ELSE LET r == PValueM(m[i].v, c.p, cfg) IN                                               \* value
                      IF ~r.ok THEN r
                      ELSE LET l2 == (IF cfg.fmt THEN 1 ELSE 0) + (IF i < Len(m) THEN 1 ELSE 0)
                               e == EnsPut(UpdateOffset(r.p), l2 + 1,
                                         (IF i < Len(m) THEN <<44>> ELSE <<>>) \o (IF cfg.fmt THEN <<10>> ELSE <<>>) \o <<0>>, l2, cfg) IN
                           IF ~e.ok THEN e ELSE PObjectM(m, i + 1, e.p, cfg)

\* text a finished buffer holds: bytes before the first zero
TextOf(p) == LET z == ZeroFrom(p.buf, 1) IN IF z = 0 THEN p.buf ELSE SubSeq(p.buf, 1, z - 1)

\* the entry points.  Result: [ok, text, p]
\* cJSON_Print / cJSON_PrintUnformatted: 256 byte buffer, then shrink (realloc) or copy out
PrintAlloc(v, fmt, realloc, initial) ==
  LET cfg == [noalloc |-> FALSE, realloc |-> realloc, fmt |-> fmt]
      r == PValueM(v, P0(initial, 0), cfg) IN
  IF ~r.ok THEN [ok |-> FALSE, text |-> <<>>, p |-> r.p]
  ELSE LET p1 == UpdateOffset(r.p) IN [ok |-> TRUE, text |-> SubSeq(p1.buf, 1, p1.off), p |-> p1]
\* cJSON_PrintBuffered: caller-chosen initial size, buffer returned as it is
PrintBuffered(v, fmt, realloc, prebuffer) ==
  LET cfg == [noalloc |-> FALSE, realloc |-> realloc, fmt |-> fmt]
      r == PValueM(v, P0(prebuffer, 0), cfg) IN
  [ok |-> r.ok, text |-> IF r.ok THEN TextOf(r.p) ELSE <<>>, p |-> r.p]
\* cJSON_PrintPreallocated: the caller's n bytes, never grown
PrintPreallocated(v, fmt, n) ==
  LET cfg == [noalloc |-> TRUE, realloc |-> FALSE, fmt |-> fmt]
      r == PValueM(v, P0(n, 0), cfg) IN
  [ok |-> r.ok, text |-> IF r.ok THEN TextOf(r.p) ELSE <<>>, p |-> r.p]
=============================================================================
