------------------------------ MODULE MC_Parse ------------------------------
(***************************************************************************)
(* Enumerates byte strings by growing still-viable prefixes unit by unit     *)
(* (a unit is a byte or a multi-byte token), so the set of cases is closed    *)
(* under truncation, and for every case                                      *)
(*   - evaluates the transcription ParseMachine on the four buffer/flag       *)
(*     variants (exact length or with a terminating zero; termination         *)
(*     required or not) - an out-of-bounds read stops TLC (C01),               *)
(*   - classifies each variant with the declarative grammar JsonText:         *)
(*       "A" must be accepted with exactly this value (C02, C10),             *)
(*       "R" must be rejected (C03, C10),  "O" left open by the properties,   *)
(*   - asserts that the transcription honours the classification (L2 => L1),  *)
(*     the parse-end/error-position clauses of C10,                            *)
(*   - emits the case with the predicted outcomes for replay on the library.  *)
(***************************************************************************)
EXTENDS ParseMachine, TLC, Json, BigCases
SX == INSTANCE SequencesExt

CONSTANTS U,          \* name of the universe
          MaxUnits,   \* how many units a case may have
          Edits,      \* TRUE: also every single-byte edit of every accepted RFC text
          Emit

VARIABLES s, cnt, cut      \* the text, number of units in it, length before the last unit was appended

Byte(S) == {<<c>> : c \in S}
Q(str) == str         \* readability only

\* ---- universes -----------------------------------------------------------------------------------------
TokUnits == Byte({91, 93, 123, 125, 44, 58, 32}) \cup {<<34, 97, 34>>, <<49>>, <<110, 117, 108, 108>>, <<34, 34>>}
StrUnits == Byte({97, 1, 127, 128, 34})
            \cup {<<195, 169>>}                                                              \* e-acute, raw UTF-8
            \cup {<<92, c>> : c \in {34, 92, 47, 98, 102, 110, 114, 116, 120, 85}}            \* simple escapes, \x and \U are unknown
            \cup {<<92, 117>> \o h : h \in {<<48,48,52,49>>, <<48,48,101,57>>, <<48,48,69,57>>, <<48,48,55,102>>, <<48,48,56,48>>, <<48,55,102,102>>,
                                            <<48,56,48,48>>, <<100,55,102,102>>, <<101,48,48,48>>, <<102,102,102,102>>,
                                            <<100,56,48,48>>, <<68,66,70,70>>, <<100,99,48,48>>, <<68,70,70,70>>,
                                            <<48,48,48,48>>, <<48,48,103,48>>, <<90,90,90,90>>, <<49,50>>, <<43,49,50,51>>}}
NumUnits == Byte({48, 49, 57, 45, 43, 46, 101, 69, 120})
LitUnits == Byte({110, 117, 108, 116, 114, 101, 102, 97, 115, 78, 120})
WsUnits  == Byte({32, 9, 10, 13, 0, 1, 11, 49, 91, 93, 239, 34}) \cup {<<239, 187, 191>>, <<239, 187>>}
Ones(n) == [i \in 1..n |-> 49]
Rep(c, n) == [i \in 1..n |-> c]
LongStarts == {Ones(61), <<45>> \o Ones(61), Ones(30) \o <<46>> \o Ones(30), Ones(58) \o <<101, 49>>,
               <<45>> \o Rep(101, 61), <<45>> \o Rep(46, 61), <<91, 45>> \o Rep(45, 61), <<49>> \o Rep(101, 61),
               \* a number that fills the 63-byte copy inside a container: what follows it is judged by the container, not swallowed with it
               <<91>> \o Ones(61), <<91>> \o Ones(62), <<123, 34, 97, 34, 58>> \o Ones(62)}
              \cup UNION {{<<91>> \o Ones(n) \o t \o <<93>>, <<123, 34, 97, 34, 58>> \o Ones(n) \o t \o <<125>>, <<91, 48, 44>> \o Ones(n) \o t \o <<44, 48, 93>>}
                          : n \in {62, 63, 64, 70}, t \in {<<45>>, <<45, 43, 101, 46>>, <<101, 43>>, <<46, 53, 46, 53>>, <<43>>, <<101>>, <<46>>, <<45, 49>>}}

\* nesting bookkeeping: complete empty containers and openers, so that depth accounting errors show within a few units
\* strings that end in an escaped backslash / contain a quote or brackets: nothing inside a string counts as nesting
NestUnits == Byte({91, 93, 44, 125, 49}) \cup {<<123, 125>>, <<91, 93>>, <<123, 34, 97, 34, 58>>}
             \cup {<<34, 92, 92, 34>>, <<34, 91, 34>>}
Units == CASE U = "nest" -> NestUnits [] U = "tok" -> TokUnits [] U = "str" -> StrUnits [] U = "num" -> NumUnits [] U = "lit" -> LitUnits
           [] U = "ws" -> WsUnits [] U = "long" -> Byte({49, 46, 101, 93, 45, 43}) [] OTHER -> {}
\* "big": long literals, wide containers, deep nesting; "allbytes": every byte value in every syntactic position (no growth: MaxUnits = 0)
\* "deep": complete texts nested up to two levels beyond the limit, bare or behind a first element / member that is a string ending in an
\* escaped backslash, holding a quote or holding brackets (nothing inside a string counts as nesting); growth by units stops at the first
\* refused bracket, so complete over-deep texts only come from here
RepSeq(u, n) == IF n = 0 THEN <<>> ELSE [i \in 1..(n * Len(u)) |-> u[Rem(i - 1, Len(u)) + 1]]
DeepPrefixes == {<<>>, <<91, 34, 92, 92, 34, 44>>, <<91, 34, 92, 34, 34, 44>>, <<91, 34, 91, 91, 34, 44>>, <<91, 34, 93, 34, 44>>, <<123, 34, 107, 92, 92, 34, 58>>, <<91, 49, 44>>}
ClosePrefix(p) == IF p = <<>> THEN <<>> ELSE IF p[1] = 91 THEN <<93>> ELSE <<125>>
DeepTexts(lim) == UNION {{p \o RepSeq(<<91>>, d) \o leaf \o RepSeq(<<93>>, d) \o ClosePrefix(p),
                     p \o RepSeq(<<123, 34, 97, 34, 58>>, d) \o <<49>> \o RepSeq(<<125>>, d) \o ClosePrefix(p)}
                      : p \in DeepPrefixes, d \in 1..(lim + 2), leaf \in {<<>>, <<49>>}}
\* "esctab": the byte after a backslash and every digit position of a \u escape (alone, first and second half of a surrogate pair) take every
\* byte value 0..255, as a string value, an array element and a member name: the escape switch and the hex decoder as complete tables
HexOne == <<48, 48, 52, 49>>   HexHigh == <<100, 56, 51, 100>>   HexLow == <<100, 101, 48, 48>>        \* 0041, d83d, de00
EscBodies == {<<92, c>> : c \in 0..255}
             \cup {<<92, 117>> \o [HexOne EXCEPT ![k] = c] : k \in 1..4, c \in 0..255}
             \cup {<<92, 117>> \o [HexHigh EXCEPT ![k] = c] \o <<92, 117>> \o HexLow : k \in 1..4, c \in 0..255}
             \cup {<<92, 117>> \o HexHigh \o <<92, 117>> \o [HexLow EXCEPT ![k] = c] : k \in 1..4, c \in 0..255}
             \* a first half followed by six bytes that are not a \u escape / by another first half / a second half alone
             \cup {<<92, 117>> \o HexHigh \o t : t \in {<<97, 98, 99, 100, 101, 102>>, <<92, 110, 100, 101, 48, 48>>, <<92, 85, 100, 101, 48, 48>>, <<117, 92, 100, 101, 48, 48>>,
                                                     <<92, 117>> \o HexHigh, <<92, 92, 117>> \o HexLow, <<92, 117, 100, 101, 48>>}}
             \cup {<<92, 117>> \o HexLow \o <<92, 117>> \o HexHigh, <<92, 117>> \o HexLow, <<92, 117>> \o HexHigh}
EscTabTexts == UNION {{<<34>> \o b \o <<34>>, <<91, 34, 120>> \o b \o <<34, 93>>, <<123, 34>> \o b \o <<121, 34, 58, 49, 125>>} : b \in EscBodies}
Starts == CASE U = "esctab" -> EscTabTexts [] U = "deep" -> DeepTexts(NestingLimit) [] U = "str" -> {<<34>>, <<123, 34>>} [] U = "long" -> LongStarts [] U = "big" -> BigParseTexts [] U = "bigq" -> BigParseTextsQ [] U = "allbytes" -> AllByteTexts [] OTHER -> {<<>>}

\* ---- L1 classification ---------------------------------------------------------------------------------
Front(b) == SubSeq(b, 1, Len(b) - 1)
EndsNul(b) == Len(b) >= 1 /\ b[Len(b)] = 0
RfcText(t) == IsText(t, "rfc") /\ WithinLimits(TextValue(t, "rfc"))

\* the RFC text a buffer holds, if any: the buffer itself or the buffer without its terminating zero
Held(b, rnt) == IF ~rnt /\ RfcText(b) THEN b
                ELSE IF EndsNul(b) /\ RfcText(Front(b)) THEN Front(b)
                ELSE <<-1>>

Class(b, rnt) ==
  LET lv == LeadingValue(b, "lenient") IN
  IF Held(b, rnt) # <<-1>> THEN "A"
  ELSE IF ~lv.ok THEN "R"
  ELSE IF ~rnt THEN "O"
  ELSE LET rest == SubSeq(b, lv.nx, Len(b)) IN
       \* G: bytes that are not whitespace follow the value, and they are tolerated only when termination is not required (C03, C10)
       \* T: the value is followed by whitespace only, but no zero byte inside the buffer ends it (C10)
       IF \E i \in DOMAIN rest : rest[i] > 32 THEN "G"
       ELSE IF rest = <<>> \/ rest[Len(rest)] # 0 THEN "T" ELSE "O"

\* ---- one case -------------------------------------------------------------------------------------------
Variant(b, rnt) ==
  LET r == ParseBuf(b, rnt) c == Class(b, rnt) IN
  [r |-> r, c |-> c, n |-> Len(b),
   good |-> /\ (c = "A" => r.ok /\ StrictEq(r.v, TextValue(Held(b, rnt), "rfc")))                    \* C02
            /\ (c \in {"R", "T", "G"} => ~r.ok)                                                                   \* C03 / C10
            /\ (r.ok => r.end >= 0 /\ r.end <= Len(b)                                                \* C10 parse end
                        /\ LET p == ParseBuf(SubSeq(b, 1, r.end), FALSE) IN p.ok /\ StrictEq(p.v, r.v))
            /\ (r.ok /\ rnt => r.end < Len(b) /\ b[r.end + 1] = 0)                                   \* C10 termination
            /\ (~r.ok /\ Len(b) > 0 => r.err >= 0 /\ r.err < Len(b))                                 \* C10 error position
            \* cross-check of the two TLA+ readings on texts the properties leave open
            /\ LET lv == LeadingValue(b, "lenient") IN
               (r.ok /\ lv.ok /\ WithinLimits(lv.v)) => StrictEq(r.v, lv.v)]

JVar(x) == <<x.r.ok, IF x.r.ok THEN JV(x.r.v) ELSE <<>>, x.r.end, x.r.err, x.c>>

CheckOne(t) ==
  LET z  == t \o <<0>>
      e0 == Variant(t, FALSE) e1 == Variant(t, TRUE) z0 == Variant(z, FALSE) z1 == Variant(z, TRUE)
  IN /\ Assert(e0.good /\ e1.good /\ z0.good /\ z1.good, <<"parser transcription violates the declarative reading (C02/C03/C10) on", t>>)
     /\ (Emit => PrintT(ToJson(<<"P", t, JVar(e0), JVar(e1), JVar(z0), JVar(z1)>>)))

\* every single-byte deletion / substitution / insertion of an accepted RFC text (C03 "single-edit corruption")
EditBytes == {91, 93, 123, 125, 44, 58, 34, 92, 32, 49, 110, 0}
EditsOf(t) == {SubSeq(t, 1, i - 1) \o SubSeq(t, i + 1, Len(t)) : i \in 1..Len(t)}
              \cup {[t EXCEPT ![i] = c] : i \in 1..Len(t), c \in EditBytes}
              \cup {SubSeq(t, 1, i) \o <<c>> \o SubSeq(t, i + 1, Len(t)) : i \in 0..Len(t), c \in EditBytes}

\* a text is grown further while it is a complete value followed by nothing but bytes <= 0x20 (whitespace of the lenient dialect, zero bytes
\* included: what follows them is where the termination rule is decided), or an incomplete one
Extendable(t) == LET r == ParseBuf(t, FALSE) IN (r.ok /\ \A k \in (r.end + 1)..Len(t) : t[k] <= 32) \/ (~r.ok /\ r.eof)

\* ---- the string decoder as a byte table ("strtable") -----------------------------------------------------
\* copy[c]: the literal "c" is decoded to exactly the byte c;  valid[c]: that literal is an RFC 8259 text on its own (class A).
\* The decoder copies such bytes one by one (Decode), so the table determines every literal made of them: checked here on all
\* pairs of a sample, applied by the driver to every literal of 1-3 bytes.
QLit(bs) == <<34>> \o bs \o <<34>>
CopyByte(c) == LET r == ParseBuf(QLit(<<c>>), FALSE) IN r.ok /\ r.end = 3 /\ StrictEq(r.v, VStr(<<c>>))
ValidByte(c) == Class(QLit(<<c>>), FALSE) = "A"
TableSample == {1, 31, 32, 33, 35, 47, 91, 93, 127, 128, 194, 224, 226, 237, 239, 244, 255}
ByteWise == \A c \in TableSample : \A d \in TableSample : \A e \in {9, 97, 169, 255} :
              (CopyByte(c) /\ CopyByte(d) /\ CopyByte(e)) =>
                 LET r == ParseBuf(QLit(<<c, d, e>>), FALSE) IN r.ok /\ r.end = 5 /\ StrictEq(r.v, VStr(<<c, d, e>>))
\* units of a string body that are decoded on their own (escapes, a surrogate pair, raw UTF-8): a body made of such units decodes to the
\* concatenation of their decodings (checked on all pairs); the driver repeats them thousands of times (scale cases)
ScaleCand == StrUnits \cup {<<92, 117, 100, 56, 51, 100, 92, 117, 100, 101, 48, 48>>, <<92, 117, 48, 48, 52, 49>>, <<92, 117, 50, 48, 97, 99>>, <<92, 117, 68, 53, 53, 56>>, <<226, 130, 172>>}
DecOf(u) == ParseBuf(QLit(u), FALSE)
ScaleUnits == {u \in ScaleCand : DecOf(u).ok /\ DecOf(u).end = Len(u) + 2 /\ DecOf(u).v.t = "str" /\ DecOf(u).v.s # <<>> /\ u # <<34>>}
UnitWise == \A u1 \in ScaleUnits : \A u2 \in ScaleUnits :
              LET r == DecOf(u1 \o u2) IN r.ok /\ r.end = Len(u1) + Len(u2) + 2 /\ r.v.s = DecOf(u1).v.s \o DecOf(u2).v.s
UnitTable == LET us == SX!SetToSeq(ScaleUnits) IN [i \in DOMAIN us |-> <<us[i], DecOf(us[i]).v.s>>]
EmitTable == /\ Assert(ByteWise, "the string decoder is not byte-wise on copied bytes")
             /\ Assert(UnitWise, "the string decoder is not unit-wise on escapes")
             /\ Assert(\A c \in 1..255 : CopyByte(c) <=> c \notin {34, 92}, "unexpected copy set")
             /\ (Emit => PrintT(ToJson(<<"Y", [c \in 1..255 |-> IF CopyByte(c) THEN 1 ELSE 0], [c \in 1..255 |-> IF ValidByte(c) THEN 1 ELSE 0], UnitTable>>)))

InvCase ==
  /\ (U = "strtable") => EmitTable
  /\ \A k \in (cut + 1)..Len(s) : CheckOne(SubSeq(s, 1, k))           \* the case and every truncation inside its last unit
  /\ (Len(s) = 0 /\ cut = 0) => CheckOne(<<>>)
  /\ (Edits /\ RfcText(s)) => \A e \in EditsOf(s) : CheckOne(e)

Init == s \in Starts /\ cnt = 0 /\ cut = (IF s = <<>> THEN 0 ELSE Len(s) - 1)
Next == /\ cnt < MaxUnits /\ Extendable(s)
        /\ \E u \in Units : s' = s \o u /\ cut' = Len(s) /\ cnt' = cnt + 1
View == s
=============================================================================
