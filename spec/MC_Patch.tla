------------------------------ MODULE MC_Patch ------------------------------
(***************************************************************************)
(* Enumerations for the RFC utilities (C16 C17 C18):                        *)
(*  Mode "apply":  every (document, patch) of a generated universe with the  *)
(*                 RFC 6902 verdict: class S (must succeed with this result),*)
(*                 F (must fail), O (open)                                    *)
(*  Mode "merge":  every (target, merge patch) with the RFC 7396 result       *)
(*  Mode "pairs":  every (from, to) pair, for patch / merge-patch generation  *)
(*                 (the generated patches are judged by MC_UtilCheck)         *)
(***************************************************************************)
EXTENDS PatchImpl, TLC, Json
CONSTANTS Mode, Tier, Emit
VARIABLES a, b, phase

N1 == VNum(N_one)   N2 == VNum(N_two)
S(x) == VStr(x)
KT1 == <<126, 49>>
KA == <<97>>  KAA == <<65>>  KB == <<98>>  KSL == <<97, 47, 98>>  KTI == <<109, 126, 110>>

\* ---- documents ----
Leaves == {N1, N2, VNull, VTrue, S(<<120>>)}
Doc1 == ArrsOver({N1, N2}, 2) \cup ObjsOver({N1, N2}, {KA, KAA, KB}, 2, TRUE)
RepK(c, n) == [i \in 1..n |-> c]
KLong == RepK(107, 70)                     \* a 70 byte key
KHi1 == <<195, 132, 112>>   KHi2 == <<195, 150, 108>>   KHi3 == <<226, 130, 172>>      \* keys starting with bytes >= 0x80
Wide(n) == VArr([i \in 1..n |-> IF i = n THEN N2 ELSE N1])
\* ten members, keys with high first bytes among ASCII ones, two different member orders
TenA == VObj(<< <<<<90, 105>>, N1>>, <<KHi1, N2>>, <<KA, N1>>, <<KHi3, N1>>, <<KB, N2>>, <<<<122>>, N1>>, <<KHi2, N1>>, <<<<77>>, N2>>, <<KAA, N1>>, <<<<48>>, N1>> >>)
TenB == VObj(<< <<<<48>>, N1>>, <<KAA, N1>>, <<<<77>>, N2>>, <<KHi2, N1>>, <<<<122>>, N1>>, <<KB, N2>>, <<KHi3, N1>>, <<KA, N1>>, <<KHi1, N2>>, <<<<90, 105>>, N1>> >>)
TenC == [TenA EXCEPT !.m[3].v = N2]
\* the same ten members in other orders (stride permutations), and eleven / twelve members
RemP(a0, m0) == a0 - m0 * (a0 \div m0)
TenP(st, off) == [TenA EXCEPT !.m = [j \in 1..10 |-> TenA.m[RemP(j * st + off, 10) + 1]]]
TenPerms == {TenP(st, off) : st \in {1, 3, 7, 9}, off \in {0, 3, 5}}
Twelve == [TenA EXCEPT !.m = TenA.m \o << Mem(<<195, 169>>, N1), Mem(<<109>>, N2) >>]
TwelveR == [Twelve EXCEPT !.m = [j \in 1..12 |-> Twelve.m[RemP(j * 5 + 2, 12) + 1]]]
DocsApply == {
  VObj(<< <<KA, VArr(<<N1, N2>>)>>, <<KAA, N2>>, <<KSL, VObj(<< <<KTI, N1>> >>)>> >>),
  VArr(<< N1, VObj(<< <<KA, N1>>, <<KB, VArr(<<>>)>> >>), VArr(<<N2>>) >>),
  VObj(<< <<KB, N1>>, <<KA, N2>> >>), VArr(<<>>), VObj(<<>>), N1, S(<<120, 121>>),
  VObj(<< <<KA, S(<<120>>)>>, <<KB, VObj(<< <<KA, S(<<121>>)>> >>)>> >>),
  \* member names that still look like an escape after decoding: "~1" (pointer /~01), "/" (pointer /~1), "~0" (pointer /~00), "x~01" (pointer /x~001)
  VObj(<< <<KT1, N1>>, <<<<47>>, N2>>, <<<<126, 48>>, N1>>, <<<<120, 126, 48, 49>>, N2>> >>) }
BigDocsApply == {Wide(1001), Wide(1200), VObj(<< <<KA, Wide(1001)>> >>), TenA}

\* ---- pointers worth trying in a document ----
\* index tokens congruent to small indices modulo 2^32 / 2^64, and 2^31: they designate nothing
\* member names of 256 and 300 bytes (under object, array and scalar parents)
LongTok == {[i \in 1..256 |-> 97], [i \in 1..300 |-> IF i = 299 THEN 126 ELSE IF i = 300 THEN 49 ELSE 97]}
BigIdx == LongTok \cup {<<52, 50, 57, 52, 57, 54, 55, 50, 57, 54>>, <<52, 50, 57, 52, 57, 54, 55, 50, 57, 55>>, <<49, 56, 52, 52, 54, 55, 52, 52, 48, 55, 51, 55, 48, 57, 53, 53, 49, 54, 49, 54>>, <<49, 56, 52, 52, 54, 55, 52, 52, 48, 55, 51, 55, 48, 57, 53, 53, 49, 54, 49, 55>>, <<50, 49, 52, 55, 52, 56, 51, 54, 52, 56>>}
\* what a C library number parser would take for an index but RFC 6901 does not (sign, blank, hexadecimal, exponent)
OddIdx == {<<43, 49>>, <<32, 49>>, <<49, 32>>, <<45, 48>>, <<48, 120, 48>>, <<49, 101, 48>>, <<43, 48>>}
PtrsOf(d) == {PointerTo(d, p) : p \in PathsOf(d)}
Beyond(d) == UNION {{q \o <<47>> \o t : t \in {<<120>>, <<45>>, <<48>>, <<49>>, <<50>>, <<51>>, <<48, 49>>, <<>>, KA, <<97, 126, 49, 98>>, <<109, 126, 48, 110>>} \cup BigIdx \cup OddIdx} : q \in PtrsOf(d)}
Odd == {<<97>>, <<47, 126, 50>>, <<47, 97, 47, 126>>}
Ptrs(d) == PtrsOf(d) \cup Beyond(d) \cup (IF Tier = "quick" THEN {<<97>>} ELSE Odd)

Vals == IF Tier = "quick" THEN {N2, VArr(<<N1>>)} ELSE {N2, VNull, VArr(<<N1>>), VObj(<< <<KA, N1>> >>)}
OpObj(op, path) == VObj(<< <<KOp, S(op)>>, <<KPath, S(path)>> >>)
OpObjV(op, path, v) == VObj(<< <<KOp, S(op)>>, <<KPath, S(path)>>, <<KValue, v>> >>)
OpObjF(op, path, from) == VObj(<< <<KOp, S(op)>>, <<KPath, S(path)>>, <<KFrom, S(from)>> >>)

DupFirst(x) == [x EXCEPT !.m = [i \in DOMAIN x.m |-> x.m[1]]]
FromPtrs(d) == PtrsOf(d) \cup {<<47, 120>>} \cup (IF Tier = "quick" THEN {} ELSE Odd)
OpsFor(d) ==
  {OpObj(OpRemove, p) : p \in Ptrs(d)}
  \cup {OpObjV(o, p, v) : o \in {OpAdd, OpReplace, OpTest}, p \in Ptrs(d), v \in Vals}
  \cup {OpObjV(OpTest, p, ValueAt(d, Resolve(d, p))) : p \in PtrsOf(d)}
  \* a test value that repeats a member name: as many members as the document's object, every one of them matching - and still a different value
  \cup {OpObjV(OpTest, p, DupFirst(ValueAt(d, Resolve(d, p)))) : p \in {q \in PtrsOf(d) : LET x == ValueAt(d, Resolve(d, q)) IN x.t = "obj" /\ Len(x.m) >= 2}}
  \cup {OpObjF(o, p, f) : o \in {OpMove, OpCopy}, p \in Ptrs(d), f \in FromPtrs(d)}

\* values that are not patches, and operations with members missing or of the wrong type
Almost(d) ==
  LET p == IF PtrsOf(d) = {<<>>} THEN <<>> ELSE CHOOSE q \in PtrsOf(d) : q # <<>> IN
  { N1, VNull, S(<<120>>), VObj(<<>>), VArr(<<N1>>), VArr(<<VArr(<<>>)>>), VArr(<<VObj(<<>>)>>),
    VArr(<<VObj(<< <<KOp, S(OpAdd)>> >>)>>), VArr(<<VObj(<< <<KPath, S(p)>> >>)>>),
    VArr(<<VObj(<< <<KOp, N1>>, <<KPath, S(p)>> >>)>>), VArr(<<VObj(<< <<KOp, S(OpAdd)>>, <<KPath, N1>> >>)>>),
    VArr(<<VObj(<< <<KOp, S(<<120>>)>>, <<KPath, S(p)>> >>)>>), VArr(<<OpObj(OpAdd, p)>>), VArr(<<OpObj(OpReplace, p)>>), VArr(<<OpObj(OpTest, p)>>),
    VArr(<<OpObj(OpMove, p)>>), VArr(<<OpObj(OpCopy, p)>>),
    VArr(<<VObj(<< <<KOp, S(OpMove)>>, <<KPath, S(p)>>, <<KFrom, N1>> >>)>>), VArr(<<VObj(<< <<KOp, S(OpCopy)>>, <<KPath, S(p)>>, <<KFrom, VNull>> >>)>>),
    VArr(<<VObj(<< <<KOp, S(OpCopy)>>, <<KPath, S(p)>>, <<KFrom, VArr(<<>>)>> >>)>>), VArr(<<VObj(<< <<<<79, 80>>, S(OpAdd)>>, <<KPath, S(p)>>, <<KValue, N1>> >>)>>) }

IsBigDoc(d) == d \in BigDocsApply
\* for wide documents only a handful of operations: comparing / touching the whole wide container
BigPatches(d) ==
  LET root == IF d.t = "obj" /\ Member(d, KA) # 0 /\ d.m[Member(d, KA)].v.t = "arr" THEN <<47, 97>> ELSE <<>>
      w == ValueAt(d, Resolve(d, root))
      n == Len(w.m) IN
  {VArr(<<OpObjV(OpTest, root, w)>>), VArr(<<OpObjV(OpTest, root, [w EXCEPT !.m[n].v = N1])>>), VArr(<<OpObjV(OpTest, <<>>, d)>>),
   VArr(<<OpObjV(OpTest, root, w), OpObjV(OpReplace, root \o <<47>> \o (IF w.t = "arr" THEN <<48>> ELSE KA), N2)>>),
   VArr(<<OpObj(OpRemove, root \o <<47>> \o (IF w.t = "arr" THEN DecText(n - 1) ELSE KHi1)), OpObjV(OpTest, root, RemoveMember(w, IF w.t = "arr" THEN n ELSE Member(w, KHi1)))>>)}
PatchesSmall(d) == {VArr(<<o>>) : o \in OpsFor(d)} \cup Almost(d) \cup {VArr(<<>>)}
               \cup (IF Tier # "deep" THEN {} ELSE
                     LET E == {OpObjV(OpAdd, p, N2) : p \in Ptrs(d)} \cup {OpObj(OpRemove, p) : p \in Ptrs(d)} \cup {OpObjF(OpMove, p, f) : p \in PtrsOf(d), f \in PtrsOf(d)}
                     IN {VArr(<<o1, o2>>) : o1 \in E, o2 \in E})
               \cup (IF Tier = "quick" THEN {} ELSE
                     {VArr(<<o1, o2>>) : o1 \in {OpObjV(OpTest, p, ValueAt(d, Resolve(d, p))) : p \in PtrsOf(d)} \cup {OpObj(OpRemove, p) : p \in PtrsOf(d) \ {<<>>}},
                                         o2 \in {OpObjV(OpAdd, p, N2) : p \in Ptrs(d)} \cup {OpObj(OpRemove, p) : p \in PtrsOf(d)}})

Patches(d) == IF IsBigDoc(d) THEN BigPatches(d) ELSE PatchesSmall(d)

\* ---- merge ----
MVals0 == {N1, VNull, S(<<120>>), VArr(<<N1>>)}
MObj1 == ObjsOver(MVals0, {KA, KAA}, 2, TRUE)
MVals1 == MVals0 \cup MObj1
MObj2 == ObjsOver({N1, VNull} \cup ObjsOver({N1, VNull}, {KA, KAA}, 1, TRUE), {KA, KB}, 2, TRUE)
\* three levels: null members and replacements at every depth (kept narrow: the universe is squared)
MObj3 == ObjsOver({N1, VNull} \cup ObjsOver({N1, VNull} \cup ObjsOver({N1, VNull}, {KA}, 1, TRUE), {KA}, 1, TRUE), {KA, KB}, 2, TRUE)
\* arrays are values to RFC 7396: null inside an array, and null members of objects inside arrays, are kept as they are - as a patch for any
\* target, below object patches whose target has no such member / is not an object, and as targets
ArrNull == VArr(<<VObj(<< <<KA, VNull>>, <<KB, N1>> >>)>>)
MArrs == {ArrNull, VArr(<<VNull>>), VObj(<< <<KA, ArrNull>> >>), VObj(<< <<KB, VObj(<< <<KA, ArrNull>>, <<KB, VNull>> >>)>> >>),
          VObj(<< <<KA, VArr(<<VNull, VObj(<< <<KA, VNull>> >>), VArr(<<VObj(<< <<KB, VNull>> >>)>>)>>)>> >>)}
RECURSIVE NullBelowObjects(_)       \* a null member reachable through objects only (arrays are opaque values to RFC 7396)
NullBelowObjects(v) == v.t = "obj" /\ \E i \in DOMAIN v.m : v.m[i].v.t = "null" \/ NullBelowObjects(v.m[i].v)
MergeUniverse == MArrs \cup IF Tier = "quick" THEN MVals0 \cup MObj1 ELSE IF Tier = "deep" THEN MVals0 \cup MObj1 \cup MObj2 \cup MObj3 ELSE MVals0 \cup MObj1 \cup MObj2

\* ---- pairs for generation ----
PLeaf == {N1, N2, VNull, VTrue, VFalse, S(<<120>>)}
PKeys == {KA, KAA, KSL, KTI}
\* a nested object whose members are out of order although the smallest key comes first, the same value in key order, and a neighbour
NestedUnsorted == {VObj(<< <<KA, VObj(<< <<KA, N1>>, <<KTI, N2>>, <<KB, N1>> >>)>>, <<KB, N2>> >>),
                   VObj(<< <<KA, VObj(<< <<KA, N1>>, <<KB, N1>>, <<KTI, N2>> >>)>>, <<KB, N2>> >>),
                   VObj(<< <<KB, N2>>, <<KA, VObj(<< <<KA, N1>>, <<KTI, N1>>, <<KB, N1>> >>)>> >>),
                   VArr(<< VObj(<< <<KA, N1>>, <<KTI, N2>>, <<KB, N1>> >>), N1 >>)}
\* numbers at the tolerance boundary (equal / one step beyond), same key, top level and one level down; pairs that straddle an
\* integer are kept apart (PatchImpl.Straddle)
PNums == {N_one, N_one_eps, N_one_2eps, N_one_3eps, N_one75, N_one75_2, N_one75_3, N_m_half, N_m_half_p2, N_m_half_p3}
NumDocs == {VArr(<<VTrue, VNull, VFalse>>), VObj(<< <<KA, VTrue>>, <<KB, VNull>> >>), VObj(<< <<KA, VFalse>>, <<KB, VNull>> >>)} \cup {VNum(n) : n \in PNums} \cup {VObj(<< <<KA, VNum(n)>> >>) : n \in PNums} \cup {VObj(<< <<KB, N1>>, <<KA, VObj(<< <<KB, VNum(n)>> >>)>> >>) : n \in {N_one, N_one_eps, N_one_2eps, N_m_half, N_m_half_p3}}
PairUniverse0 == IF Tier = "quick" THEN PLeaf \cup ArrsOver({N1, N2}, 2) \cup ObjsOver({N1, N2}, {KA, KAA, KSL}, 2, TRUE) \cup NestedUnsorted
                                       \cup {VObj(<< <<KB, N1>>, <<KA, N2>>, <<KAA, N1>> >>), VObj(<< <<KA, N1>>, <<KTI, N2>>, <<KB, N1>> >>)}
                ELSE PLeaf \cup ArrsOver({N1, N2}, 2) \cup ObjsOver({N1, N2}, PKeys, 2, TRUE) \cup NestedUnsorted
                     \cup ArrsOver({N1} \cup ObjsOver({N1, N2}, {KA, KAA}, 1, TRUE), 2)
                     \cup ObjsOver({N1} \cup ObjsOver({N1, N2}, {KA, KAA}, 1, TRUE) \cup ArrsOver({N1}, 1), {KA, KB}, 2, TRUE)
                     \cup {VObj(<< <<KB, N1>>, <<KA, N2>>, <<KAA, N1>> >>), VObj(<< <<KA, N1>>, <<KTI, N2>>, <<KB, N1>> >>)}
                     \cup {TenA, TenB, TenC, Twelve, TwelveR} \cup TenPerms \cup ObjsOver({N1, N2}, {KA, KLong}, 2, TRUE)
                     \cup {VObj(<< <<KA, N1>>, <<KLong, N1>>, <<KB, N2>> >>), VObj(<< <<KLong \o <<47, 126>>, VObj(<< <<KA, N1>> >>)>>, <<KA, N2>> >>), Wide(12), Wide(40)}
                     \cup (IF Tier # "deep" THEN {} ELSE
                           ObjsOver({N1, N2}, {KA, KAA, KB}, 3, TRUE) \cup ArrsOver({N1, N2, VNull}, 3)
                           \cup ObjsOver({N1} \cup ObjsOver({N1, N2} \cup ObjsOver({N1, N2}, {KA, KAA}, 1, TRUE), {KA, KAA}, 1, TRUE), {KA, KSL}, 2, TRUE))

\* members whose names start with a byte >= 0x80 next to ASCII names, with different key sets on the two sides
HiDocs == ObjsOver({N1, N2}, {KA, KHi1, <<122>>}, 2, TRUE) \cup {VObj(<< <<KA, N1>>, <<KHi1, N2>>, <<<<122>>, N1>> >>), VObj(<< <<KHi3, N1>>, <<KA, N1>>, <<KHi1, N2>> >>)}
\* a pointer of more than 4 KiB below an array element that is followed by another common element (only paired with one another)
K4100 == [i \in 1..4100 |-> IF i = 2000 THEN 47 ELSE 107]
LongPath(x, y, z) == VArr(<< VObj(<< <<K4100, VObj(<< <<KA, x>> >>)>> >>), y, VArr(<<z>>) >>)
LongDocs == {LongPath(N1, N1, N1), LongPath(N2, N2, N1), LongPath(N1, N2, N2), LongPath(N2, N1, N2)}
\* nested objects with zero to three members in every member order under one key, one and two levels down: the two sides of a pair then hold
\* nested objects of different size and order (the utilities sort what they compare; whatever they compare must have been sorted)
NestedFam == {VObj(<< <<KA, x>>, <<KB, N2>> >>) : x \in ObjsOver({N1}, {KA, KB, KTI}, 3, TRUE)}
             \cup {VObj(<< <<KA, VObj(<< <<KB, N2>>, <<KA, N1>> >>)>>, <<KB, N2>> >>)}
             \cup {VObj(<< <<KB, VObj(<< <<KA, x>> >>)>> >>) : x \in ObjsOver({N1}, {KB, KA}, 2, TRUE) \cup {VObj(<< <<KTI, N1>>, <<KB, N2>>, <<KA, N1>> >>)}}
\* member names that still look like an escape after one decoding ("~1" next to "/", "~0" next to "~")
TildeDocs == ObjsOver({N1, N2}, {KT1, <<47>>}, 2, TRUE) \cup {VObj(<< <<<<126, 48>>, x>>, <<<<126>>, N1>> >>) : x \in {N1, N2}} \cup {VObj(<< <<KA, VObj(<< <<KT1, x>>, <<<<47>>, N2>> >>)>> >>) : x \in {N1, N2}}
\* member names that differ in case only, three levels down (what a generator does below its first recursion)
Case3 == {VObj(<< <<KB, VObj(<< <<KA, x>> >>)>> >>) : x \in ObjsOver({N1, N2}, {KA, KAA}, 1, TRUE) \cup {VObj(<< <<KA, N1>>, <<KAA, N2>> >>)}}
PairUniverse == NumDocs \cup HiDocs \cup PairUniverse0 \cup LongDocs \cup NestedFam \cup TildeDocs \cup Case3

Init == /\ phase = 0 /\ b = VNull
        /\ a \in (IF Mode = "apply" THEN DocsApply \cup (IF Tier = "quick" THEN {} ELSE Doc1 \cup BigDocsApply) ELSE IF Mode = "merge" THEN MergeUniverse ELSE PairUniverse)

Step ==
  CASE Mode = "apply" ->
         /\ b' \in Patches(a)
         /\ LET r == ApplyRFC(a, b') cls == IF r.open THEN "O" ELSE IF r.ok THEN "S" ELSE "F"
                i == ApplyImpl(a, b')
                \* known finding (KNOWN_FINDINGS.txt): copy / move onto the whole document is refused
                rootCM == b'.t = "arr" /\ \E k \in DOMAIN b'.m : LET o == b'.m[k].v IN
                             o.t = "obj" /\ StrMember(o, KOp).isStr /\ StrMember(o, KOp).s \in {OpCopy, OpMove} /\ StrMember(o, KPath).isStr /\ StrMember(o, KPath).s = <<>>
            IN /\ Assert(cls = "S" => ((i.status = 0 /\ SemEq(i.doc, r.doc, TRUE)) \/ (rootCM /\ i.status # 0)), <<"C16: apply_patch transcription fails or differs on a patch RFC 6902 accepts", a, b', i>>)
               /\ Assert(cls = "F" => i.status # 0, <<"C16: apply_patch transcription succeeds on a patch RFC 6902 rejects", a, b', i>>)
               /\ (Emit => PrintT(ToJson(<<"A", JV(a), JV(b'), cls, IF r.ok THEN JV(r.doc) ELSE <<>>, i.status>>)))
    [] Mode = "merge" ->
         /\ b' \in MergeUniverse
         /\ LET r == MergeRFC(a, b') IN
            /\ Assert(SemEq(MergeImpl(a, b'), r, TRUE), <<"C18: merge_patch transcription differs from RFC 7396", a, b'>>)
            /\ Assert(b'.t = "obj" \/ r = b', "RFC 7396: a non-object patch replaces the target")
            /\ Assert(~NullBelowObjects(r) \/ b'.t # "obj" \/ NullBelowObjects(a), "RFC 7396: null members delete")
            /\ (Emit => PrintT(ToJson(<<"M", JV(a), JV(b'), JV(r)>>)))
    [] OTHER ->
         /\ b' \in (IF a \in LongDocs THEN LongDocs ELSE PairUniverse \ LongDocs)
         /\ Assert(\A x, y \in PNums \cup {N_one, N_two} : ~Straddle(x, y), "the pair universe must not contain numbers within the tolerance whose integer views differ")
         /\ LET p == GeneratePatchesImpl(a, b') r == ApplyRFC(a, p) IN
            Assert(r.ok /\ SemEq(r.doc, b', TRUE) /\ ((p.m = <<>>) <=> SemEq(a, b', TRUE)), <<"C17: create_patches transcription: the patch does not transform from into to", a, b', p>>)
         /\ LET g == GenMergeImpl(a, b') IN
            Assert(HasNullMember(b') \/ (IF g.t = "missing" THEN SemEq(a, b', TRUE) ELSE SemEq(MergeRFC(a, g), b', TRUE)), <<"C18: generate_merge_patch transcription: the merge patch does not transform from into to", a, b', g>>)
         /\ (Emit => PrintT(ToJson(<<"P", JV(a), JV(b'), SemEq(a, b', TRUE), HasNullMember(b')>>)))

Next == phase = 0 /\ phase' = 1 /\ a' = a /\ Step
=============================================================================
