------------------------------ MODULE MC_Patch ------------------------------
(***************************************************************************)
(* Enumerations for the RFC utilities (C16 C17 C18):                        *)
(*  Mode "apply":  every (document, patch) of a generated universe with the  *)
(*                 RFC 6902 verdict: class S (must succeed with this result),*)
(*                 F (must fail), O (open)                                    *)
(*  Mode "merge":  every (target, merge patch) with the RFC 7396 result       *)
(*  Mode "pairs":  every (from, to) pair, for patch / merge-patch generation  *)
(*                 (the generated patches are judged by MC_UtilCheck)         *)
(***************************************************************************)
EXTENDS PatchImpl, TLC, Json
CONSTANTS Mode, Tier, Emit
VARIABLES a, b, phase

N1 == VNum(N_one)   N2 == VNum(N_two)
S(x) == VStr(x)
KA == <<97>>  KAA == <<65>>  KB == <<98>>  KSL == <<97, 47, 98>>  KTI == <<109, 126, 110>>

\* ---- documents ----
Leaves == {N1, N2, VNull, VTrue, S(<<120>>)}
Doc1 == ArrsOver({N1, N2}, 2) \cup ObjsOver({N1, N2}, {KA, KAA, KB}, 2, TRUE)
DocsApply == {
  VObj(<< <<KA, VArr(<<N1, N2>>)>>, <<KAA, N2>>, <<KSL, VObj(<< <<KTI, N1>> >>)>> >>),
  VArr(<< N1, VObj(<< <<KA, N1>>, <<KB, VArr(<<>>)>> >>), VArr(<<N2>>) >>),
  VObj(<< <<KB, N1>>, <<KA, N2>> >>), VArr(<<>>), VObj(<<>>), N1 }

\* ---- pointers worth trying in a document ----
PtrsOf(d) == {PointerTo(d, p) : p \in PathsOf(d)}
Beyond(d) == UNION {{q \o <<47>> \o t : t \in {<<120>>, <<45>>, <<48>>, <<49>>, <<50>>, <<51>>, <<48, 49>>, <<>>, KA, <<97, 126, 49, 98>>, <<109, 126, 48, 110>>}} : q \in PtrsOf(d)}
Odd == {<<97>>, <<47, 126, 50>>, <<47, 97, 47, 126>>}
Ptrs(d) == PtrsOf(d) \cup Beyond(d) \cup (IF Tier = "quick" THEN {<<97>>} ELSE Odd)

Vals == IF Tier = "quick" THEN {N2, VArr(<<N1>>)} ELSE {N2, VNull, VArr(<<N1>>), VObj(<< <<KA, N1>> >>)}
OpObj(op, path) == VObj(<< <<KOp, S(op)>>, <<KPath, S(path)>> >>)
OpObjV(op, path, v) == VObj(<< <<KOp, S(op)>>, <<KPath, S(path)>>, <<KValue, v>> >>)
OpObjF(op, path, from) == VObj(<< <<KOp, S(op)>>, <<KPath, S(path)>>, <<KFrom, S(from)>> >>)

FromPtrs(d) == PtrsOf(d) \cup {<<47, 120>>} \cup (IF Tier = "quick" THEN {} ELSE Odd)
OpsFor(d) ==
  {OpObj(OpRemove, p) : p \in Ptrs(d)}
  \cup {OpObjV(o, p, v) : o \in {OpAdd, OpReplace, OpTest}, p \in Ptrs(d), v \in Vals}
  \cup {OpObjV(OpTest, p, ValueAt(d, Resolve(d, p))) : p \in PtrsOf(d)}
  \cup {OpObjF(o, p, f) : o \in {OpMove, OpCopy}, p \in Ptrs(d), f \in FromPtrs(d)}

\* values that are not patches, and operations with members missing or of the wrong type
Almost(d) ==
  LET p == IF PtrsOf(d) = {<<>>} THEN <<>> ELSE CHOOSE q \in PtrsOf(d) : q # <<>> IN
  { N1, VNull, S(<<120>>), VObj(<<>>), VArr(<<N1>>), VArr(<<VArr(<<>>)>>), VArr(<<VObj(<<>>)>>),
    VArr(<<VObj(<< <<KOp, S(OpAdd)>> >>)>>), VArr(<<VObj(<< <<KPath, S(p)>> >>)>>),
    VArr(<<VObj(<< <<KOp, N1>>, <<KPath, S(p)>> >>)>>), VArr(<<VObj(<< <<KOp, S(OpAdd)>>, <<KPath, N1>> >>)>>),
    VArr(<<VObj(<< <<KOp, S(<<120>>)>>, <<KPath, S(p)>> >>)>>), VArr(<<OpObj(OpAdd, p)>>), VArr(<<OpObj(OpReplace, p)>>), VArr(<<OpObj(OpTest, p)>>),
    VArr(<<OpObj(OpMove, p)>>), VArr(<<OpObj(OpCopy, p)>>),
    VArr(<<VObj(<< <<KOp, S(OpMove)>>, <<KPath, S(p)>>, <<KFrom, N1>> >>)>>), VArr(<<VObj(<< <<KOp, S(OpCopy)>>, <<KPath, S(p)>>, <<KFrom, VNull>> >>)>>),
    VArr(<<VObj(<< <<KOp, S(OpCopy)>>, <<KPath, S(p)>>, <<KFrom, VArr(<<>>)>> >>)>>), VArr(<<VObj(<< <<<<79, 80>>, S(OpAdd)>>, <<KPath, S(p)>>, <<KValue, N1>> >>)>>) }

Patches(d) == {VArr(<<o>>) : o \in OpsFor(d)} \cup Almost(d) \cup {VArr(<<>>)}
               \cup (IF Tier # "deep" THEN {} ELSE
                     LET E == {OpObjV(OpAdd, p, N2) : p \in Ptrs(d)} \cup {OpObj(OpRemove, p) : p \in Ptrs(d)} \cup {OpObjF(OpMove, p, f) : p \in PtrsOf(d), f \in PtrsOf(d)}
                     IN {VArr(<<o1, o2>>) : o1 \in E, o2 \in E})
               \cup (IF Tier = "quick" THEN {} ELSE
                     {VArr(<<o1, o2>>) : o1 \in {OpObjV(OpTest, p, ValueAt(d, Resolve(d, p))) : p \in PtrsOf(d)} \cup {OpObj(OpRemove, p) : p \in PtrsOf(d) \ {<<>>}},
                                         o2 \in {OpObjV(OpAdd, p, N2) : p \in Ptrs(d)} \cup {OpObj(OpRemove, p) : p \in PtrsOf(d)}})

\* ---- merge ----
MVals0 == {N1, VNull, S(<<120>>), VArr(<<N1>>)}
MObj1 == ObjsOver(MVals0, {KA, KAA}, 2, TRUE)
MVals1 == MVals0 \cup MObj1
MObj2 == ObjsOver({N1, VNull} \cup ObjsOver({N1, VNull}, {KA, KAA}, 1, TRUE), {KA, KB}, 2, TRUE)
MObj3 == ObjsOver({N1, VNull, S(<<120>>)} \cup ObjsOver({N1, VNull} \cup ObjsOver({N1, VNull}, {KA}, 1, TRUE), {KA, KAA}, 2, TRUE), {KA, KB}, 2, TRUE)
MergeUniverse == IF Tier = "quick" THEN MVals0 \cup MObj1 ELSE IF Tier = "deep" THEN MVals0 \cup MObj1 \cup MObj2 \cup MObj3 ELSE MVals0 \cup MObj1 \cup MObj2

\* ---- pairs for generation ----
PLeaf == {N1, N2, VNull, S(<<120>>)}
PKeys == {KA, KAA, KSL, KTI}
PairUniverse == IF Tier = "quick" THEN PLeaf \cup ArrsOver({N1, N2}, 2) \cup ObjsOver({N1, N2}, {KA, KAA, KSL}, 2, TRUE)
                                       \cup {VObj(<< <<KB, N1>>, <<KA, N2>>, <<KAA, N1>> >>), VObj(<< <<KA, N1>>, <<KTI, N2>>, <<KB, N1>> >>)}
                ELSE PLeaf \cup ArrsOver({N1, N2}, 2) \cup ObjsOver({N1, N2}, PKeys, 2, TRUE)
                     \cup ArrsOver({N1} \cup ObjsOver({N1, N2}, {KA, KAA}, 1, TRUE), 2)
                     \cup ObjsOver({N1} \cup ObjsOver({N1, N2}, {KA, KAA}, 1, TRUE) \cup ArrsOver({N1}, 1), {KA, KB}, 2, TRUE)
                     \cup {VObj(<< <<KB, N1>>, <<KA, N2>>, <<KAA, N1>> >>), VObj(<< <<KA, N1>>, <<KTI, N2>>, <<KB, N1>> >>)}
                     \cup (IF Tier # "deep" THEN {} ELSE
                           ObjsOver({N1, N2}, {KA, KAA, KB}, 3, TRUE) \cup ArrsOver({N1, N2, VNull}, 3)
                           \cup ObjsOver({N1} \cup ObjsOver({N1, N2} \cup ObjsOver({N1, N2}, {KA, KAA}, 1, TRUE), {KA, KAA}, 1, TRUE), {KA, KSL}, 2, TRUE))

Init == /\ phase = 0 /\ b = VNull
        /\ a \in (IF Mode = "apply" THEN DocsApply \cup (IF Tier = "quick" THEN {} ELSE Doc1) ELSE IF Mode = "merge" THEN MergeUniverse ELSE PairUniverse)

Step ==
  CASE Mode = "apply" ->
         /\ b' \in Patches(a)
         /\ LET r == ApplyRFC(a, b') cls == IF r.open THEN "O" ELSE IF r.ok THEN "S" ELSE "F"
                i == ApplyImpl(a, b')
                \* known finding (KNOWN_FINDINGS.txt): copy / move onto the whole document is refused
                rootCM == b'.t = "arr" /\ \E k \in DOMAIN b'.m : LET o == b'.m[k].v IN
                             o.t = "obj" /\ StrMember(o, KOp).isStr /\ StrMember(o, KOp).s \in {OpCopy, OpMove} /\ StrMember(o, KPath).isStr /\ StrMember(o, KPath).s = <<>>
            IN /\ Assert(cls = "S" => ((i.status = 0 /\ SemEq(i.doc, r.doc, TRUE)) \/ (rootCM /\ i.status # 0)), <<"C16: apply_patch transcription fails or differs on a patch RFC 6902 accepts", a, b', i>>)
               /\ Assert(cls = "F" => i.status # 0, <<"C16: apply_patch transcription succeeds on a patch RFC 6902 rejects", a, b', i>>)
               /\ (Emit => PrintT(ToJson(<<"A", JV(a), JV(b'), cls, IF r.ok THEN JV(r.doc) ELSE <<>>, i.status>>)))
    [] Mode = "merge" ->
         /\ b' \in MergeUniverse
         /\ LET r == MergeRFC(a, b') IN
            /\ Assert(SemEq(MergeImpl(a, b'), r, TRUE), <<"C18: merge_patch transcription differs from RFC 7396", a, b'>>)
            /\ Assert(b'.t = "obj" \/ r = b', "RFC 7396: a non-object patch replaces the target")
            /\ Assert(~HasNullMember(r) \/ b'.t # "obj" \/ HasNullMember(a), "RFC 7396: null members delete")
            /\ (Emit => PrintT(ToJson(<<"M", JV(a), JV(b'), JV(r)>>)))
    [] OTHER ->
         /\ b' \in PairUniverse
         /\ LET p == GeneratePatchesImpl(a, b') r == ApplyRFC(a, p) IN
            Assert(r.ok /\ SemEq(r.doc, b', TRUE) /\ ((p.m = <<>>) <=> SemEq(a, b', TRUE)), <<"C17: create_patches transcription: the patch does not transform from into to", a, b', p>>)
         /\ LET g == GenMergeImpl(a, b') IN
            Assert(HasNullMember(b') \/ (IF g.t = "missing" THEN SemEq(a, b', TRUE) ELSE SemEq(MergeRFC(a, g), b', TRUE)), <<"C18: generate_merge_patch transcription: the merge patch does not transform from into to", a, b', g>>)
         /\ (Emit => PrintT(ToJson(<<"P", JV(a), JV(b'), SemEq(a, b', TRUE), HasNullMember(b')>>)))

Next == phase = 0 /\ phase' = 1 /\ a' = a /\ Step
=============================================================================
