------------------------------ MODULE PatchImpl ------------------------------
(***************************************************************************)
(* L2: value-level transcriptions of the RFC utilities of cJSON_Utils.c      *)
(*   apply_patch / detach_path / decode_pointer_inplace / compare_json       *)
(*   (cJSON_Utils.c:359-1036), create_patches / compose_patch (1096-1279),   *)
(*   merge_patch (1321-1379), generate_merge_patch (1391-1471).              *)
(* Documents are JsonValue records; member order is kept where the code      *)
(* keeps it (insertion at the end after a delete, sorting before a merge),   *)
(* results are compared with the RFC evaluators of Patch.tla up to member    *)
(* order.  Status values are the code's.                                     *)
(***************************************************************************)
EXTENDS Patch

\* ---- sort_object: members ordered by key (case sensitive byte order), stable enough for distinct keys ----
RECURSIVE KeyLessB(_, _)
KeyLessB(a, b) == IF b = <<>> THEN FALSE ELSE IF a = <<>> THEN TRUE ELSE IF a[1] # b[1] THEN a[1] < b[1] ELSE KeyLessB(Tail(a), Tail(b))
RECURSIVE InsertSorted(_, _)
InsertSorted(sorted, mem) == IF sorted = <<>> THEN <<mem>>
                             ELSE IF KeyLessB(mem.k, sorted[1].k) THEN <<mem>> \o sorted
                             ELSE <<sorted[1]>> \o InsertSorted(Tail(sorted), mem)
RECURSIVE SortMembers(_)
SortMembers(m) == IF m = <<>> THEN <<>> ELSE InsertSorted(SortMembers(Tail(m)), m[1])

\* number equality as cJSON_Utils decides it (compare_json, create_patches): the integer views are compared as well as the doubles.
\* It differs from NumEq (C12) exactly on pairs within the tolerance that straddle an integer (0.99999999999999989 and 1): named
\* deviation, see DESIGN 12; the universes of MC_Patch keep such pairs apart (Straddle).
UtilNumEq(x, y) == NumInt[x] = NumInt[y] /\ NumEq(x, y)
Straddle(x, y) == NumEq(x, y) /\ NumInt[x] # NumInt[y]

\* ---- compare_json (the test operation): NULL operands are passed as Missing ----
Missing == Mk("missing")
RECURSIVE CompareJson(_, _)
CompareJson(a, b) ==
  IF a.t = "missing" \/ b.t = "missing" \/ a.t # b.t THEN FALSE
  ELSE CASE a.t = "num" -> UtilNumEq(a.n, b.n)                  \* valueint equal and compare_double
         [] a.t = "str" -> a.s = b.s
         [] a.t = "arr" -> /\ Len(a.m) = Len(b.m) /\ \A i \in DOMAIN a.m : CompareJson(a.m[i].v, b.m[i].v)
         [] a.t = "obj" -> LET x == SortMembers(a.m) y == SortMembers(b.m) IN
                           /\ Len(x) = Len(y) /\ \A i \in DOMAIN x : x[i].k = y[i].k /\ CompareJson(x[i].v, y[i].v)
         [] OTHER -> TRUE                                       \* null, true, false (and raw): equal types suffice

\* ---- decode_pointer_inplace on the last token: on an invalid escape the buffer is left half decoded ----
RECURSIVE DecodeInplace(_, _, _)
DecodeInplace(t, i, acc) ==      \* i: read position (1-based), acc: bytes written so far
  IF i > Len(t) THEN acc
  ELSE IF t[i] # 126 THEN DecodeInplace(t, i + 1, Append(acc, t[i]))
  ELSE IF i + 1 <= Len(t) /\ t[i + 1] = 48 THEN DecodeInplace(t, i + 2, Append(acc, 126))
  ELSE IF i + 1 <= Len(t) /\ t[i + 1] = 49 THEN DecodeInplace(t, i + 2, Append(acc, 47))
  ELSE acc \o SubSeq(t, Len(acc) + 1, Len(t))                   \* early return: the tail of the buffer is what it was

HasSlash(p) == \E i \in DOMAIN p : p[i] = 47
SplitParent(p) == ParentPtr(p)                                  \* text before the last '/'
SplitChild(p) == LET RECURSIVE lastSlash(_)
                     lastSlash(i) == IF p[i] = 47 THEN i ELSE lastSlash(i - 1)
                 IN SubSeq(p, lastSlash(Len(p)) + 1, Len(p))

\* get_item_from_pointer as a path (Pointer.tla's transcription)
ItemPath(doc, p) == GetPointerImpl(doc, p, TRUE)

\* decode_array_index_from_pointer on a C string
IndexOf(tok) == DecodeIndex(tok, 0)

\* detach_path: [ok, doc, v]
DetachPath(doc, p) ==
  IF ~HasSlash(p) THEN [ok |-> FALSE, doc |-> doc, v |-> VNull]
  ELSE LET pp == ItemPath(doc, SplitParent(p)) child == DecodeInplace(SplitChild(p), 1, <<>>) IN
       IF pp = NoPath THEN [ok |-> FALSE, doc |-> doc, v |-> VNull]
       ELSE LET par == ValueAt(doc, pp) IN
            IF par.t = "arr" THEN
                 LET d == IndexOf(child) IN
                 IF ~d.ok \/ d.idx >= Len(par.m) THEN [ok |-> FALSE, doc |-> doc, v |-> VNull]
                 ELSE [ok |-> TRUE, v |-> par.m[d.idx + 1].v,
                       doc |-> UpdateAt(doc, pp, [op |-> "remove", i |-> d.idx + 1, mem |-> Mem(NoKey, VNull)])]
            ELSE IF par.t = "obj" THEN
                 LET i == Member(par, child) IN
                 IF i = 0 THEN [ok |-> FALSE, doc |-> doc, v |-> VNull]
                 ELSE [ok |-> TRUE, v |-> par.m[i].v, doc |-> UpdateAt(doc, pp, [op |-> "remove", i |-> i, mem |-> Mem(NoKey, VNull)])]
            ELSE [ok |-> FALSE, doc |-> doc, v |-> VNull]

St(status, doc) == [status |-> status, doc |-> doc]
Invalid == Mk("invalid")

\* "Now, just add value to path"
InsertAtPath(doc, p, x) ==
  IF ~HasSlash(p) THEN St(9, doc)
  ELSE LET pp == ItemPath(doc, SplitParent(p)) child == DecodeInplace(SplitChild(p), 1, <<>>) IN
       IF pp = NoPath THEN St(9, doc)
       ELSE LET par == ValueAt(doc, pp) IN
            IF par.t = "arr" THEN
                 IF child = <<45>> THEN St(0, UpdateAt(doc, pp, [op |-> "insert", i |-> Len(par.m) + 1, mem |-> Mem(NoKey, x)]))
                 ELSE LET d == IndexOf(child) IN
                      IF ~d.ok THEN St(11, doc)
                      ELSE IF d.idx > Len(par.m) THEN St(10, doc)
                      ELSE St(0, UpdateAt(doc, pp, [op |-> "insert", i |-> d.idx + 1, mem |-> Mem(NoKey, x)]))
            ELSE IF par.t = "obj" THEN
                 LET i == Member(par, child)
                     d1 == IF i = 0 THEN doc ELSE UpdateAt(doc, pp, [op |-> "remove", i |-> i, mem |-> Mem(NoKey, VNull)])
                     n == Len(ValueAt(d1, pp).m)
                 IN St(0, UpdateAt(d1, pp, [op |-> "insert", i |-> n + 1, mem |-> Mem(child, x)]))
            ELSE St(9, doc)

ApplyOpImpl(doc, o) ==
  LET path == StrMember(o, KPath) op == StrMember(o, KOp) from == StrMember(o, KFrom) vi == Member(o, KValue) IN
  IF ~path.has \/ ~path.isStr THEN St(2, doc)
  ELSE IF ~op.has \/ ~op.isStr \/ op.s \notin {OpAdd, OpRemove, OpReplace, OpMove, OpCopy, OpTest} THEN St(3, doc)
  ELSE IF op.s = OpTest THEN
       LET tp == ItemPath(doc, path.s) IN
       St(IF CompareJson(IF tp = NoPath THEN Missing ELSE ValueAt(doc, tp), IF vi = 0 THEN Missing ELSE o.m[vi].v) THEN 0 ELSE 1, doc)
  ELSE IF path.s = <<>> /\ op.s = OpRemove THEN St(0, Invalid)
  ELSE IF path.s = <<>> /\ op.s \in {OpReplace, OpAdd} THEN (IF vi = 0 THEN St(7, doc) ELSE St(0, o.m[vi].v))
  ELSE LET afterOld == IF op.s \in {OpRemove, OpReplace} THEN DetachPath(doc, path.s) ELSE [ok |-> TRUE, doc |-> doc, v |-> VNull] IN
       IF ~afterOld.ok THEN St(13, doc)
       ELSE IF op.s = OpRemove THEN St(0, afterOld.doc)
       ELSE IF op.s \in {OpMove, OpCopy} THEN
            IF ~from.has \/ ~from.isStr THEN St(4, doc)
            ELSE IF op.s = OpMove /\ IsPrefix(from.s, path.s) /\ Len(path.s) > Len(from.s) /\ path.s[Len(from.s) + 1] = 47 THEN St(14, doc)
            ELSE IF op.s = OpMove THEN (LET d == DetachPath(doc, from.s) IN IF ~d.ok THEN St(5, doc) ELSE
                                        LET r == InsertAtPath(d.doc, path.s, d.v) IN IF r.status = 0 THEN r ELSE St(r.status, d.doc))
            ELSE LET fp == ItemPath(doc, from.s) IN IF fp = NoPath THEN St(5, doc) ELSE InsertAtPath(doc, path.s, ValueAt(doc, fp))
       ELSE \* add / replace
            IF vi = 0 THEN St(7, afterOld.doc) ELSE
            LET r == InsertAtPath(afterOld.doc, path.s, o.m[vi].v) IN IF r.status = 0 THEN r ELSE St(r.status, afterOld.doc)

RECURSIVE ApplyOpsImpl(_, _, _)
ApplyOpsImpl(doc, ops, i) ==
  IF i > Len(ops) THEN St(0, doc)
  ELSE LET r == ApplyOpImpl(doc, ops[i].v) IN IF r.status # 0 THEN r ELSE ApplyOpsImpl(r.doc, ops, i + 1)
ApplyImpl(doc, patch) == IF patch.t # "arr" THEN St(1, doc) ELSE ApplyOpsImpl(doc, patch.m, 1)

(***************************************************************************)
(* create_patches / compose_patch                                           *)
(***************************************************************************)
PatchOp(op, path) == VObj(<< <<KOp, VStr(op)>>, <<KPath, VStr(path)>> >>)
PatchOpV(op, path, v) == VObj(<< <<KOp, VStr(op)>>, <<KPath, VStr(path)>>, <<KValue, v>> >>)

RECURSIVE CreatePatches(_, _, _)
RECURSIVE ArrayPatches(_, _, _, _)
RECURSIVE ObjectPatches(_, _, _, _, _)
CreatePatches(path, from, to) ==                 \* sequence of operation objects
  IF from.t # to.t THEN <<PatchOpV(OpReplace, path, to)>>
  ELSE CASE from.t = "num" -> IF ~UtilNumEq(from.n, to.n) THEN <<PatchOpV(OpReplace, path, to)>> ELSE <<>>
         [] from.t = "str" -> IF from.s # to.s THEN <<PatchOpV(OpReplace, path, to)>> ELSE <<>>
         [] from.t = "arr" -> ArrayPatches(path, from.m, to.m, 1)
         [] from.t = "obj" -> ObjectPatches(path, SortMembers(from.m), SortMembers(to.m), 1, 1)
         [] OTHER -> <<>>
ArrayPatches(path, f, t, i) ==
  IF i <= Len(f) /\ i <= Len(t) THEN CreatePatches(path \o <<47>> \o DecText(i - 1), f[i].v, t[i].v) \o ArrayPatches(path, f, t, i + 1)
  ELSE IF i <= Len(f) THEN [k \in 1..(Len(f) - i + 1) |-> PatchOp(OpRemove, path \o <<47>> \o DecText(i - 1))]     \* same index each time
  ELSE [k \in 1..(Len(t) - i + 1) |-> PatchOpV(OpAdd, path \o <<47, 45>>, t[i + k - 1].v)]
ObjectPatches(path, f, t, i, j) ==
  IF i > Len(f) /\ j > Len(t) THEN <<>>
  ELSE IF i > Len(f) THEN <<PatchOpV(OpAdd, path \o <<47>> \o EscapeKey(t[j].k), t[j].v)>> \o ObjectPatches(path, f, t, i, j + 1)
  ELSE IF j > Len(t) THEN <<PatchOp(OpRemove, path \o <<47>> \o EscapeKey(f[i].k))>> \o ObjectPatches(path, f, t, i + 1, j)
  ELSE IF f[i].k = t[j].k THEN CreatePatches(path \o <<47>> \o EscapeKey(f[i].k), f[i].v, t[j].v) \o ObjectPatches(path, f, t, i + 1, j + 1)
  ELSE IF KeyLessB(f[i].k, t[j].k) THEN <<PatchOp(OpRemove, path \o <<47>> \o EscapeKey(f[i].k))>> \o ObjectPatches(path, f, t, i + 1, j)
  ELSE <<PatchOpV(OpAdd, path \o <<47>> \o EscapeKey(t[j].k), t[j].v)>> \o ObjectPatches(path, f, t, i, j + 1)
GeneratePatchesImpl(from, to) == VArr(CreatePatches(<<>>, from, to))

(***************************************************************************)
(* merge_patch / generate_merge_patch                                        *)
(***************************************************************************)
RECURSIVE MergeImpl(_, _)
RECURSIVE MergeLoop(_, _, _)
MergeImpl(target, patch) ==          \* target may be Missing (detached member that did not exist)
  IF patch.t # "obj" THEN patch
  ELSE MergeLoop(IF target.t = "obj" THEN target ELSE VObj(<<>>), patch.m, 1)
MergeLoop(t, pm, i) ==
  IF i > Len(pm) THEN t
  ELSE LET name == pm[i].k val == pm[i].v j == Member(t, name) IN
       IF val.t = "null" THEN MergeLoop(IF j = 0 THEN t ELSE RemoveMember(t, j), pm, i + 1)
       ELSE LET old == IF j = 0 THEN Missing ELSE t.m[j].v                          \* DetachItemFromObject
                t1 == IF j = 0 THEN t ELSE RemoveMember(t, j)
                new == MergeImpl(old, val)
            IN MergeLoop(InsertMember(t1, Len(t1.m) + 1, Mem(name, new)), pm, i + 1)   \* AddItemToObject appends

RECURSIVE GenMergeImpl(_, _)
RECURSIVE GenMergeLoop(_, _, _, _)
\* result: a value, or Missing for a NULL patch (no change)
GenMergeImpl(from, to) ==
  IF to.t # "obj" \/ from.t # "obj" THEN to
  ELSE LET ms == GenMergeLoop(SortMembers(from.m), SortMembers(to.m), 1, 1) IN
       IF ms = <<>> THEN Missing ELSE [Mk("obj") EXCEPT !.m = ms]
GenMergeLoop(f, t, i, j) ==
  IF i > Len(f) /\ j > Len(t) THEN <<>>
  ELSE IF j > Len(t) \/ (i <= Len(f) /\ KeyLessB(f[i].k, t[j].k)) THEN <<Mem(f[i].k, VNull)>> \o GenMergeLoop(f, t, i + 1, j)      \* removed member
  ELSE IF i > Len(f) \/ KeyLessB(t[j].k, f[i].k) THEN <<Mem(t[j].k, t[j].v)>> \o GenMergeLoop(f, t, i, j + 1)                     \* new member
  ELSE IF CompareJson(f[i].v, t[j].v) THEN GenMergeLoop(f, t, i + 1, j + 1)
  ELSE LET sub == GenMergeImpl(f[i].v, t[j].v) IN
       (IF sub.t = "missing" THEN <<>> ELSE <<Mem(t[j].k, sub)>>) \o GenMergeLoop(f, t, i + 1, j + 1)   \* AddItemToObject(NULL) adds nothing
=============================================================================
