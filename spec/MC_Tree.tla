------------------------------ MODULE MC_Tree ------------------------------
(***************************************************************************)
(* Model-checking instance of Tree.tla: the state machine "library heap +  *)
(* caller-held roots", Next = one public call.  Checks the invariants and   *)
(* the list-model refinement (L2 => L1) on every transition, and emits      *)
(* every distinct state ("S" lines, with the model's answers to the query   *)
(* API) and every transition ("T" lines, with the admissible outcomes) for  *)
(* replay against the real library.                                         *)
(***************************************************************************)
EXTENDS Tree, Json, SequencesExt

CONSTANTS KeySeq,        \* sequence enumerating Keys
          QKeySeq,       \* names used in lookups (by-key queries, detach/delete/replace by key): a superset of Keys
          StrSeq,        \* sequence enumerating Strs
          LeafKinds,     \* kinds CreateLeaf may create
          Features,      \* subset of {"ref","cs","fail","bulk","dup","replace","sethelpers","addnew","null","sort"}
          MaxFail,       \* largest index of a failing allocation request explored
          Emit           \* TRUE: print S/T lines

VARIABLES h, roots, res
vars == <<h, roots, res>>

F(x) == x \in Features

(***************************************************************************)
(* projection for emission                                                  *)
(***************************************************************************)
JNode(hh, rts, i) ==
  LET r == hh[i] IN
  IF r.k = "free" THEN <<>>
  ELSE <<r.k, r.ref, r.ck, r.nx, r.pv, r.ch, r.key, r.vs, r.num, r.of, r.sib, i \in rts>>
J(hh, rts) == [i \in Node |-> JNode(hh, rts, i)]

JOut(o) == <<J(o.h, o.roots), o.res>>

\* the model's answers to the query API in state hh
Q(hh) == [p \in Node |->
            IF hh[p].k \in {"arr", "obj"}
            THEN <<Len(Kids(hh, p)), Kids(hh, p),
                   [j \in (IF hh[p].k = "obj" THEN DOMAIN QKeySeq ELSE {}) |-> <<QKeySeq[j], ObjectItem(hh, p, QKeySeq[j], TRUE), ObjectItem(hh, p, QKeySeq[j], FALSE)>>]>>
            ELSE <<>>]

EmitT(act, outs) == Emit => PrintT(ToJson(<<"T", act, J(h, roots), [j \in DOMAIN outs |-> JOut(outs[j])]>>))
EmitS == Emit => PrintT(ToJson(<<"S", J(h, roots), Q(h)>>))

(***************************************************************************)
(* L1: the list model.  abs(p) = Kids(p); attributes of a node.             *)
(***************************************************************************)
Attr(hh, i) == <<hh[i].k, hh[i].ref, hh[i].ck, hh[i].key, hh[i].vs, hh[i].num>>

\* all containers other than those in P keep their member lists; all nodes other than those in A keep their
\* attributes; nodes in Gone are released, nodes in New are created, nothing else changes liveness
Frame(h1, h2, P, A, Gone, New) ==
  /\ Live(h2) = (Live(h1) \ Gone) \cup New
  /\ \A p \in Live(h1) \ (P \cup Gone) : Kids(h2, p) = Kids(h1, p)
  /\ \A i \in Live(h1) \ (A \cup Gone) : Attr(h2, i) = Attr(h1, i)

Unchanged(h1, r1, o) == o.h = h1 /\ o.roots = r1

LmRemoveAt(s, k) == SubSeq(s, 1, k - 1) \o SubSeq(s, k + 1, Len(s))
LmInsertAt(s, k, e) == SubSeq(s, 1, k - 1) \o <<e>> \o SubSeq(s, k, Len(s))
IndexIn(s, e) == CHOOSE k \in DOMAIN s : s[k] = e

FirstKey(hh, p, name, cs) ==    \* list-model lookup, written independently of ObjectItem
  LET c == Kids(hh, p)
      ok(k) == IF cs THEN hh[c[k]].key = name ELSE Fold(hh[c[k]].key) = Fold(name)
  IN IF \E k \in DOMAIN c : ok(k) /\ \A j \in 1..(k-1) : ~ok(j)
     THEN c[CHOOSE k \in DOMAIN c : ok(k) /\ \A j \in 1..(k-1) : ~ok(j)] ELSE NULL

\* what the list model says about one call; o is the L2 outcome
L1(act, o) ==
  LET a == act[1] h2 == o.h IN
  CASE a = "AddItemToArray" ->
         LET p == act[2] i == act[3] IN
         IF p = NULL \/ i = NULL \/ p = i THEN Unchanged(h, roots, o) /\ o.res = Flag(FALSE)
         ELSE /\ o.res = Flag(TRUE) /\ Kids(h2, p) = Append(Kids(h, p), i)
              /\ Frame(h, h2, {p}, {}, {}, {}) /\ o.roots = roots \ {i}
    [] a \in {"AddItemToObject", "AddItemToObjectCS"} ->
         LET p == act[2] key == act[3] i == act[4] f == act[5] IN
         IF p = NULL \/ key = NoStr \/ i = NULL \/ p = i THEN Unchanged(h, roots, o) /\ o.res = Flag(FALSE)
         ELSE \/ f # 0 /\ Unchanged(h, roots, o) /\ o.res = Flag(FALSE)
              \/ /\ o.res = Flag(TRUE) /\ Kids(h2, p) = Append(Kids(h, p), i)
                 /\ h2[i].key = key /\ h2[i].ck = (a = "AddItemToObjectCS")
                 /\ Frame(h, h2, {p}, {i}, {}, {}) /\ o.roots = roots \ {i}
    [] a = "DetachItemViaPointer" ->
         LET p == act[2] i == act[3] IN
         IF p = NULL \/ i = NULL \/ i \notin Range(Kids(h, p)) THEN Unchanged(h, roots, o) /\ o.res = NULLRES
         ELSE /\ o.res = Ptr(i) /\ Kids(h2, p) = LmRemoveAt(Kids(h, p), IndexIn(Kids(h, p), i))
              /\ Frame(h, h2, {p}, {}, {}, {}) /\ o.roots = roots \cup {i}
    [] a = "DetachItemFromArray" ->
         LET p == act[2] idx == act[3] c == IF p = NULL THEN <<>> ELSE Kids(h, p) IN
         IF idx < 0 \/ idx >= Len(c) THEN Unchanged(h, roots, o) /\ o.res = NULLRES
         ELSE /\ o.res = Ptr(c[idx + 1]) /\ Kids(h2, p) = LmRemoveAt(c, idx + 1)
              /\ Frame(h, h2, {p}, {}, {}, {}) /\ o.roots = roots \cup {c[idx + 1]}
    [] a \in {"DetachItemFromObject", "DetachItemFromObjectCaseSensitive"} ->
         LET p == act[2] name == act[3]
             m == IF p = NULL \/ name = NoStr THEN NULL ELSE FirstKey(h, p, name, a = "DetachItemFromObjectCaseSensitive") IN
         IF m = NULL THEN Unchanged(h, roots, o) /\ o.res = NULLRES
         ELSE /\ o.res = Ptr(m) /\ Kids(h2, p) = LmRemoveAt(Kids(h, p), IndexIn(Kids(h, p), m))
              /\ Frame(h, h2, {p}, {}, {}, {}) /\ o.roots = roots \cup {m}
    [] a = "DeleteItemFromArray" ->
         LET p == act[2] idx == act[3] c == IF p = NULL THEN <<>> ELSE Kids(h, p) IN
         IF idx < 0 \/ idx >= Len(c) THEN Unchanged(h, roots, o)
         ELSE /\ Kids(h2, p) = LmRemoveAt(c, idx + 1)
              /\ Frame(h, h2, {p}, {}, Subtree(h, c[idx + 1]), {}) /\ o.roots = roots
    [] a \in {"DeleteItemFromObject", "DeleteItemFromObjectCaseSensitive"} ->
         LET p == act[2] name == act[3]
             m == IF p = NULL \/ name = NoStr THEN NULL ELSE FirstKey(h, p, name, a = "DeleteItemFromObjectCaseSensitive") IN
         IF m = NULL THEN Unchanged(h, roots, o)
         ELSE /\ Kids(h2, p) = LmRemoveAt(Kids(h, p), IndexIn(Kids(h, p), m))
              /\ Frame(h, h2, {p}, {}, Subtree(h, m), {}) /\ o.roots = roots
    [] a = "Delete" ->
         LET i == act[2] IN
         IF i = NULL THEN Unchanged(h, roots, o)
         ELSE Frame(h, h2, {}, {}, Subtree(h, i), {}) /\ o.roots = roots \ {i}
    [] a = "InsertItemInArray" ->
         LET p == act[2] idx == act[3] i == act[4] c == IF p = NULL THEN <<>> ELSE Kids(h, p) IN
         IF idx < 0 \/ i = NULL \/ p = NULL \/ p = i THEN Unchanged(h, roots, o) /\ o.res = Flag(FALSE)
         ELSE /\ o.res = Flag(TRUE)
              /\ Kids(h2, p) = IF idx >= Len(c) THEN Append(c, i) ELSE LmInsertAt(c, idx + 1, i)
              /\ Frame(h, h2, {p}, {}, {}, {}) /\ o.roots = roots \ {i}
    [] a \in {"ReplaceItemViaPointer", "ReplaceItemInArray"} ->
         LET p == act[2] r == act[4]
             c == IF p = NULL THEN <<>> ELSE Kids(h, p)
             item == IF a = "ReplaceItemViaPointer" THEN act[3]
                     ELSE IF act[3] < 0 \/ act[3] >= Len(c) THEN NULL ELSE c[act[3] + 1] IN
         IF p = NULL \/ r = NULL \/ item = NULL \/ item \notin Range(c) THEN Unchanged(h, roots, o) /\ o.res = Flag(FALSE)
         ELSE IF r = item THEN Unchanged(h, roots, o) /\ o.res = Flag(TRUE)          \* an item replaced by itself stays where it is
         ELSE /\ o.res = Flag(TRUE)
              /\ Kids(h2, p) = [c EXCEPT ![IndexIn(c, item)] = r]
              /\ Frame(h, h2, {p}, {}, Subtree(h, item), {}) /\ o.roots = roots \ {r}
    [] a \in {"ReplaceItemInObject", "ReplaceItemInObjectCaseSensitive"} ->
         LET p == act[2] name == act[3] r == act[4] f == act[5]
             m == IF p = NULL \/ name = NoStr THEN NULL ELSE FirstKey(h, p, name, a = "ReplaceItemInObjectCaseSensitive") IN
         IF r = NULL \/ name = NoStr THEN Unchanged(h, roots, o) /\ o.res = Flag(FALSE)
         ELSE IF m = NULL
              THEN /\ o.res = Flag(FALSE) /\ o.roots = roots            \* refused: every container unchanged
                   /\ Frame(h, h2, {}, {r}, {}, {})
              ELSE \/ f # 0 /\ Unchanged(h, roots, o) /\ o.res = Flag(FALSE)
                   \/ /\ m = r /\ o.res = Flag(TRUE) /\ Kids(h2, p) = Kids(h, p) /\ h2[r].key = name /\ h2[r].ck = FALSE      \* the member itself: it keeps its place
                      /\ Frame(h, h2, {p}, {r}, {}, {}) /\ o.roots = roots
                   \/ /\ m # r /\ o.res = Flag(TRUE)
                      /\ Kids(h2, p) = [Kids(h, p) EXCEPT ![IndexIn(Kids(h, p), m)] = r]
                      /\ h2[r].key = name /\ h2[r].ck = FALSE
                      /\ Frame(h, h2, {p}, {r}, Subtree(h, m), {}) /\ o.roots = roots \ {r}
    [] a = "SortObject" ->
         LET p == act[2] cs == act[3] IN
         IF p = NULL THEN Unchanged(h, roots, o)
         ELSE /\ \E t \in Perms(Kids(h, p)) : Kids(h2, p) = t            \* same member nodes
              /\ SortedBy(h2, Kids(h2, p), cs)                            \* keys non-decreasing
              /\ Frame(h, h2, {p}, {}, {}, {}) /\ o.roots = roots         \* values and subtrees untouched
              /\ SortObject(h2, o.roots, p, cs)[1].h = h2                 \* idempotent
    [] OTHER -> TRUE

(***************************************************************************)
(* L1 for C08: under one refused request the call either completes as if   *)
(* nothing had failed or fails with state and ledger untouched              *)
(***************************************************************************)
FailClean(f, o, ok) ==
  f # 0 => \/ (o.h = h /\ o.roots = roots /\ o.res \in {NULLRES, Flag(FALSE)})
           \/ o = ok

(***************************************************************************)
(* frozen lists (documented rule: what a live reference borrows is not      *)
(* modified or released)                                                    *)
(***************************************************************************)
Frozen == Pinned(h) \cup {p \in Live(h) : Range(Kids(h, p)) \cap SibPinned(h) # {}}

Arrs == {p \in Live(h) : h[p].k = "arr" /\ ~h[p].ref /\ p \notin Frozen}
Objs == {p \in Live(h) : h[p].k = "obj" /\ ~h[p].ref /\ p \notin Frozen}
Conts == Arrs \cup Objs
Loose == {i \in roots : i \notin SibPinned(h)}                       \* items the caller may attach somewhere
CanHold(p, i) == p \notin Subtree(h, i)                              \* no cycles
MaybeNull(S) == IF F("null") THEN S \cup {NULL} ELSE S
Fails(n) == IF F("fail") THEN 0..(IF n < MaxFail THEN n ELSE MaxFail) ELSE {0}
KeyArgs == IF F("null") THEN Keys \cup {NoStr} ELSE Keys
QKeys == Range(QKeySeq)
QKeyArgs == IF F("null") THEN QKeys \cup {NoStr} ELSE QKeys

Take(act, outs) ==
  /\ h' = outs[1].h /\ roots' = outs[1].roots /\ res' = outs[1].res
  /\ Assert(L1(act, outs[1]), <<"C06 list model violated by", act>>)
  /\ EmitT(act, outs)

\* same, for calls that take a failing-request index f (last element of act) and whose no-failure outcome is ok
\* C08: under a refused request a call "either completes normally or reports failure": the undisturbed outcome is admitted as well (a call that does not
\* make the refused request at all - it found it could do without the copy - completes normally); the driver counts a match with it as drift
TakeF(act, f, outs, ok) ==
  /\ Assert(FailClean(f, outs[1], ok[1]), <<"C08 unclean failure", act>>)
  /\ Take(act, IF f = 0 \/ \E k \in DOMAIN outs : outs[k] = ok[1] THEN outs ELSE Append(outs, ok[1]))

(***************************************************************************)
(* Next: one public call                                                    *)
(***************************************************************************)
Create ==
  /\ HasFree(h, 1)
  /\ \/ \E k \in LeafKinds \cap {"null", "true", "false", "arr", "obj"}, f \in Fails(1) :
          TakeF(<<"Create", k, f>>, f, CreateLeaf(h, roots, k, f), CreateLeaf(h, roots, k, 0))
     \/ \E n \in Nums, f \in Fails(1) : "num" \in LeafKinds /\
          TakeF(<<"CreateNumber", n, f>>, f, CreateNumber(h, roots, n, f), CreateNumber(h, roots, n, 0))
     \/ \E k \in LeafKinds \cap {"str", "raw"}, s \in Strs, f \in Fails(2) :
          TakeF(<<"CreateStr", k, s, f>>, f, CreateStr(h, roots, k, s, f), CreateStr(h, roots, k, s, 0))
     \/ /\ (F("ref") \/ F("refcont"))
        /\ \/ \E s \in Strs, f \in Fails(1) :
                F("ref") /\ TakeF(<<"CreateStringReference", s, f>>, f, CreateStringReference(h, roots, s, f), CreateStringReference(h, roots, s, 0))
           \/ \E k \in {"arr", "obj"}, c \in MaybeNull(Live(h)), f \in Fails(1) :
                (k \in LeafKinds \/ F("ref")) /\
                TakeF(<<"CreateContReference", k, c, f>>, f, CreateContReference(h, roots, k, c, f), CreateContReference(h, roots, k, c, 0))

Add ==
  \/ \E p \in MaybeNull(Arrs), i \in MaybeNull(Loose) :
        /\ (F("arr") \/ F("addarr"))
        /\ (p # NULL /\ i # NULL /\ p # i) => CanHold(p, i)
        /\ Take(<<"AddItemToArray", p, i>>, AddItemToArray(h, roots, p, i))
  \/ \E p \in MaybeNull(Objs), key \in KeyArgs, i \in MaybeNull(Loose), f \in Fails(1) :
        /\ (F("obj") \/ F("objadd"))
        /\ (p # NULL /\ i # NULL /\ p # i) => CanHold(p, i)
        /\ TakeF(<<"AddItemToObject", p, key, i, f>>, f, AddItemToObject(h, roots, p, key, i, FALSE, f),
                 AddItemToObject(h, roots, p, key, i, FALSE, 0))
  \/ /\ F("cs")
     /\ \E p \in MaybeNull(Objs), key \in KeyArgs, i \in MaybeNull(Loose) :
        /\ (p # NULL /\ i # NULL /\ p # i) => CanHold(p, i)
        /\ Take(<<"AddItemToObjectCS", p, key, i, 0>>, AddItemToObject(h, roots, p, key, i, TRUE, 0))
  \/ /\ (F("ref") \/ F("refarr") \/ F("refobj")) /\ HasFree(h, 1)
     /\ \/ \E p \in MaybeNull(Arrs), item \in MaybeNull(Live(h)), f \in Fails(1) :
             /\ (F("arr") \/ F("refarr"))
             /\ (p # NULL /\ item # NULL) => p \notin SubAll(h, item, N)
             /\ TakeF(<<"AddItemReferenceToArray", p, item, f>>, f, AddItemReferenceToArray(h, roots, p, item, f),
                      AddItemReferenceToArray(h, roots, p, item, 0))
        \/ \E p \in MaybeNull(Objs), key \in KeyArgs, item \in MaybeNull(Live(h)), f \in Fails(2) :
             /\ ((F("obj") /\ F("ref")) \/ F("refobj"))
             /\ (p # NULL /\ item # NULL) => p \notin SubAll(h, item, N)
             /\ TakeF(<<"AddItemReferenceToObject", p, key, item, f>>, f, AddItemReferenceToObject(h, roots, p, key, item, f),
                      AddItemReferenceToObject(h, roots, p, key, item, 0))
  \/ /\ F("addnew") /\ HasFree(h, 1)
     /\ \E p \in MaybeNull(Objs), key \in KeyArgs, k \in LeafKinds, f \in Fails(3) :
          \E s \in (IF k \in {"str", "raw"} THEN Strs ELSE {NoStr}), n \in (IF k = "num" THEN Nums ELSE {0}) :
             /\ f <= (IF k \in {"str", "raw"} THEN 3 ELSE 2)
             /\ TakeF(<<"AddNewToObject", p, key, k, s, n, f>>, f, AddNewToObject(h, roots, p, key, k, s, n, f),
                      AddNewToObject(h, roots, p, key, k, s, n, 0))

Detach ==
  \/ \E p \in MaybeNull(Conts), i \in MaybeNull(Live(h)) :
        /\ F("ptr")
        /\ (p # NULL /\ i # NULL) => (i \in Range(Kids(h, p)) \/ i \in roots)
        /\ Take(<<"DetachItemViaPointer", p, i>>, DetachItemViaPointer(h, roots, p, i))
  \/ \E p \in MaybeNull(Arrs), idx \in -1..N :
        /\ (F("arr") \/ F("detarr"))
        /\ p # NULL => idx <= Len(Kids(h, p))
        /\ Take(<<"DetachItemFromArray", p, idx>>, DetachItemFromArray(h, roots, p, idx))
  \/ \E p \in MaybeNull(Objs), name \in QKeyArgs, cs \in BOOLEAN :
        F("obj") /\
        Take(<<IF cs THEN "DetachItemFromObjectCaseSensitive" ELSE "DetachItemFromObject", p, name>>,
             DetachItemFromObject(h, roots, p, name, cs))

Del ==
  \/ \E i \in MaybeNull({r \in roots : Releasable(h, r)}) : Take(<<"Delete", i>>, Delete(h, roots, i))
  \/ \E p \in Arrs, idx \in -1..N :
        /\ F("arr")
        /\ idx <= Len(Kids(h, p))
        /\ (idx >= 0 /\ idx < Len(Kids(h, p))) => Releasable(h, Kids(h, p)[idx + 1])
        /\ Take(<<"DeleteItemFromArray", p, idx>>, DeleteAfterDetach(DetachItemFromArray(h, roots, p, idx)))
  \/ \E p \in Objs, name \in QKeys, cs \in BOOLEAN :
        /\ F("obj")
        /\ LET m == ObjectItem(h, p, name, cs) IN m # NULL => Releasable(h, m)
        /\ Take(<<IF cs THEN "DeleteItemFromObjectCaseSensitive" ELSE "DeleteItemFromObject", p, name>>,
                DeleteAfterDetach(DetachItemFromObject(h, roots, p, name, cs)))

Insert ==
  \E p \in MaybeNull(Arrs), idx \in -1..N, i \in MaybeNull(Loose) :
     /\ F("arr")
     /\ p # NULL => idx <= Len(Kids(h, p)) + 1
     /\ (p # NULL /\ i # NULL /\ p # i) => CanHold(p, i)                   \* p = i: the container itself, refused at every index
     /\ Take(<<"InsertItemInArray", p, idx, i>>, InsertItemInArray(h, roots, p, idx, i))

Replace ==
  /\ (F("replace") \/ F("replobj"))
  /\ \/ \E p \in MaybeNull(Conts), item \in MaybeNull(Live(h)), r \in MaybeNull(Loose) :
          /\ F("ptr")
          /\ (p # NULL /\ item # NULL) => (item \in Range(Kids(h, p)) /\ Releasable(h, item))
          /\ (p # NULL /\ r # NULL) => CanHold(p, r)
          /\ r # NULL => r # item
          /\ (p # NULL /\ r # NULL /\ h[p].k = "obj") => h[r].key # NoStr      \* members of objects have keys
          /\ Take(<<"ReplaceItemViaPointer", p, item, r>>, ReplaceItemViaPointer(h, roots, p, item, r))
     \/ \E p \in MaybeNull(Arrs), idx \in -1..N, r \in MaybeNull(Loose) :
          /\ F("arr")
          /\ p # NULL => idx <= Len(Kids(h, p))
          /\ (p # NULL /\ idx >= 0 /\ idx < Len(Kids(h, p))) => Releasable(h, Kids(h, p)[idx + 1])
          /\ (p # NULL /\ r # NULL) => CanHold(p, r)
          /\ Take(<<"ReplaceItemInArray", p, idx, r>>, ReplaceItemInArray(h, roots, p, idx, r))
     \/ \E p \in MaybeNull(Objs), name \in QKeyArgs, r \in MaybeNull(Loose), cs \in BOOLEAN, f \in Fails(1) :
          /\ (F("obj") \/ F("replobj"))
          /\ (p # NULL /\ name # NoStr) => LET m == ObjectItem(h, p, name, cs) IN m # NULL => Releasable(h, m)
          /\ (p # NULL /\ r # NULL) => CanHold(p, r)
          /\ TakeF(<<IF cs THEN "ReplaceItemInObjectCaseSensitive" ELSE "ReplaceItemInObject", p, name, r, f>>, f,
                   ReplaceItemInObject(h, roots, p, name, r, cs, f), ReplaceItemInObject(h, roots, p, name, r, cs, 0))

\* an item given as its own replacement (the library answers true and changes nothing; by key: the member gets a fresh copy of its key)
ReplaceSelf ==
  /\ (F("replace") \/ F("replobj"))
  /\ \/ \E p \in Conts, item \in Live(h) :
          /\ F("ptr") /\ item \in Range(Kids(h, p))
          /\ Take(<<"ReplaceItemViaPointer", p, item, item>>, ReplaceItemViaPointer(h, roots, p, item, item))
     \/ \E p \in Arrs, idx \in 0..N :
          /\ F("arr") /\ idx < Len(Kids(h, p))
          /\ Take(<<"ReplaceItemInArray", p, idx, Kids(h, p)[idx + 1]>>, ReplaceItemInArray(h, roots, p, idx, Kids(h, p)[idx + 1]))
     \/ \E p \in Objs, r \in Live(h), cs \in BOOLEAN, f \in Fails(1) :
          /\ (F("obj") \/ F("replobj")) /\ r \in Range(Kids(h, p)) /\ h[r].key # NoStr /\ ObjectItem(h, p, h[r].key, cs) = r
          /\ TakeF(<<"ReplaceItemInObjectAlias", p, r, cs, f>>, f, ReplaceItemInObject(h, roots, p, h[r].key, r, cs, f),
                   ReplaceItemInObject(h, roots, p, h[r].key, r, cs, 0))

SetHelpers ==
  /\ F("sethelpers")
  /\ \/ \E i \in {j \in Live(h) : h[j].k = "num"}, n \in Nums : Take(<<"SetNumberHelper", i, n>>, SetNumber(h, roots, i, n))
     \/ \E i \in MaybeNull(Live(h) \ Pinned(h)), s \in (IF F("null") THEN Strs \cup {NoStr} ELSE Strs), f \in Fails(1) :
          TakeF(<<"SetValuestring", i, s, f>>, f, SetValuestring(h, roots, i, s, f), SetValuestring(h, roots, i, s, 0))
     \/ \E i \in MaybeNull(Live(h)), b \in BOOLEAN : Take(<<"SetBoolValue", i, b>>, SetBool(h, roots, i, b))

Bulk ==
  /\ F("bulk")
  /\ \/ \E cnt \in -1..2, isnull \in BOOLEAN, f \in Fails(3) :
          /\ HasFree(h, 1 + (IF cnt < 0 THEN 0 ELSE cnt)) /\ f <= 1 + (IF cnt < 0 THEN 0 ELSE cnt)
          /\ TakeF(<<"CreateIntArray", cnt, isnull, <<0, 1>>, f>>, f,
                   CreateBulkArray(h, roots, "num", <<0, 1>>, cnt, isnull, f), CreateBulkArray(h, roots, "num", <<0, 1>>, cnt, isnull, 0))
     \/ \E cnt \in -1..2, isnull \in BOOLEAN, f \in Fails(5) :
          /\ HasFree(h, 1 + (IF cnt < 0 THEN 0 ELSE cnt)) /\ f <= 1 + 2 * (IF cnt < 0 THEN 0 ELSE cnt)
          /\ TakeF(<<"CreateStringArray", cnt, isnull, <<StrSeq[1], StrSeq[Len(StrSeq)]>>, f>>, f,
                   CreateBulkArray(h, roots, "str", <<StrSeq[1], StrSeq[Len(StrSeq)]>>, cnt, isnull, f),
                   CreateBulkArray(h, roots, "str", <<StrSeq[1], StrSeq[Len(StrSeq)]>>, cnt, isnull, 0))

Dup ==
  /\ F("dup")
  /\ \E item \in MaybeNull(Live(h)), rec \in BOOLEAN :
       \E f \in Fails(IF item = NULL THEN 0 ELSE DupCount(h, item, 0, rec, N)) :
          /\ ~DupOom(h, item, rec, f)
          /\ LET o == Duplicate(h, roots, item, rec, f) IN
             TakeF(<<"Duplicate", item, rec, f>>, f, o, IF DupOom(h, item, rec, 0) THEN o ELSE Duplicate(h, roots, item, rec, 0))

\* key argument aliases the moved item's own key (C07): cJSON_AddItemToObject(p, item->string, item)
Alias ==
  /\ F("alias")
  /\ \/ \E p \in Objs, i \in {j \in Loose : h[j].key # NoStr}, f \in Fails(1) :
          /\ p # i /\ CanHold(p, i)
          /\ TakeF(<<"AddItemToObjectAlias", p, i, f>>, f, AddItemToObject(h, roots, p, h[i].key, i, FALSE, f),
                   AddItemToObject(h, roots, p, h[i].key, i, FALSE, 0))
     \/ \E p \in Objs, r \in {j \in Loose : h[j].key # NoStr}, cs \in BOOLEAN, f \in Fails(1) :
          /\ F("replace") /\ CanHold(p, r)
          /\ LET m == ObjectItem(h, p, h[r].key, cs) IN m # NULL => Releasable(h, m)
          /\ TakeF(<<"ReplaceItemInObjectAlias", p, r, cs, f>>, f, ReplaceItemInObject(h, roots, p, h[r].key, r, cs, f),
                   ReplaceItemInObject(h, roots, p, h[r].key, r, cs, 0))
     \* cJSON_AddItemReferenceToObject(view, item->string, item): the reference gets its own copy of the name, whatever the argument aliases
     \/ \E p \in Objs, item \in {j \in Live(h) : h[j].key # NoStr}, f \in Fails(2) :
          /\ (F("ref") \/ F("refobj")) /\ HasFree(h, 1)
          /\ p \notin SubAll(h, item, N)
          /\ TakeF(<<"AddItemReferenceToObjectAlias", p, item, f>>, f, AddItemReferenceToObject(h, roots, p, h[item].key, item, f),
                   AddItemReferenceToObject(h, roots, p, h[item].key, item, 0))

\* the key argument points INTO the moved item's own key (a suffix of it): the property allows a key that aliases memory of the item
Suffix(k, off) == SubSeq(k, off + 1, Len(k))
AliasAt ==
  /\ F("suffix")
  /\ \/ \E p \in Objs, i \in {j \in Loose : h[j].key # NoStr}, f \in Fails(1) : \E off \in 1..Len(h[i].key) :
          /\ p # i /\ CanHold(p, i)
          /\ TakeF(<<"AddItemToObjectAliasAt", p, i, off, f>>, f, AddItemToObject(h, roots, p, Suffix(h[i].key, off), i, FALSE, f),
                   AddItemToObject(h, roots, p, Suffix(h[i].key, off), i, FALSE, 0))
     \/ \E p \in Objs, r \in {j \in Loose : h[j].key # NoStr}, cs \in BOOLEAN, f \in Fails(1) : \E off \in 1..Len(h[r].key) :
          /\ CanHold(p, r)
          /\ LET m == ObjectItem(h, p, Suffix(h[r].key, off), cs) IN m # NULL => Releasable(h, m)
          /\ TakeF(<<"ReplaceItemInObjectAliasAt", p, r, off, cs, f>>, f, ReplaceItemInObject(h, roots, p, Suffix(h[r].key, off), r, cs, f),
                   ReplaceItemInObject(h, roots, p, Suffix(h[r].key, off), r, cs, 0))

\* cJSONUtils_SortObject[CaseSensitive]; besides the code's own order every order the property admits
\* (a sorted permutation; the order among equal keys is open) is an acceptable outcome
Sort ==
  /\ F("sort")
  /\ \E p \in Objs, cs \in BOOLEAN :
        LET l2   == SortObject(h, roots, p, cs)
            alts == {t \in Perms(Kids(h, p)) : SortedBy(h, t, cs) /\ t # Kids(l2[1].h, p)}
            pick == SetToSeq(alts)
            altseq == [j \in DOMAIN pick |-> Out(Relink(h, p, pick[j]), roots, [t |-> "void"])]
        IN Take(<<"SortObject", p, cs>>, l2 \o altseq)

\* environment: the caller builds a cyclic structure by hand (C11); only Duplicate and undoing it are offered then
Cyclic == \E q \in Live(h) : ~h[q].ref /\ h[q].ch # NULL /\ h[q].ch \in roots
EnvMakeCycle ==
  /\ F("cycle") /\ ~Cyclic
  /\ \E a \in roots, q \in Live(h) :
        /\ IsCont(h[q].k) /\ ~h[q].ref /\ h[q].ch = NULL /\ q \in Subtree(h, a) /\ IsCont(h[a].k)
        /\ h' = [h EXCEPT ![q].ch = a] /\ roots' = roots /\ res' = [t |-> "void"]
        /\ EmitT(<<"EnvMakeCycle", q, a>>, <<Out(h', roots', res')>>)
EnvBreakCycle ==
  /\ Cyclic
  /\ \E q \in Live(h) : /\ ~h[q].ref /\ h[q].ch # NULL /\ h[q].ch \in roots
                        /\ h' = [h EXCEPT ![q].ch = NULL] /\ roots' = roots /\ res' = [t |-> "void"]
                        /\ EmitT(<<"EnvBreakCycle", q>>, <<Out(h', roots', res')>>)
DupCyclic ==
  /\ Cyclic
  /\ \E item \in Live(h) : IsCont(h[item].k) /\ ~DupOom(h, item, TRUE, 0) /\ TakeF(<<"Duplicate", item, TRUE, 0>>, 0, Duplicate(h, roots, item, TRUE, 0), Duplicate(h, roots, item, TRUE, 0))

Next == \/ ~Cyclic /\ (Create \/ Add \/ Detach \/ Del \/ Insert \/ Replace \/ ReplaceSelf \/ AliasAt \/ SetHelpers \/ Bulk \/ Dup \/ Alias \/ Sort \/ EnvMakeCycle)
        \/ EnvBreakCycle \/ DupCyclic

Init == h = [i \in Node |-> FreeRec] /\ roots = {} /\ res = NULLRES

Spec == Init /\ [][Next]_vars

(***************************************************************************)
(* Invariants                                                               *)
(***************************************************************************)
InvWellFormed == Cyclic \/ WellFormed(h, roots)                          \* C06 sibling chain, C07 single ownership
InvNoLeak     == roots = {} => Live(h) = {}                     \* C07: deleting the remaining roots empties the ledger
InvLeafNoKids == \A i \in Live(h) : h[i].ref \/ IsCont(h[i].k) \/ h[i].ch = NULL
InvEmit       == Cyclic \/ EmitS                                          \* one S line per distinct state

View == <<h, roots>>

(***************************************************************************)
(* constant values for the .cfg files (byte strings cannot be written in a  *)
(* cfg): "a"=97 "A"=65 "b"=98 "x"=120 "y"=121                               *)
(***************************************************************************)
KeySeq2 == <<<<97>>, <<65>>>>
KeySeq3 == <<<<97>>, <<65>>, <<98>>>>
\* boundary keys for ASCII case folding: "{"=123 "Z"=90 as members; lookups also with "["=91 "z"=122 "@"=64 "`"=96
KeySeq4 == <<<<123>>, <<90>>>>
QKeySeq4 == <<<<123>>, <<90>>, <<91>>, <<122>>, <<64>>, <<96>>>>
Keys4 == Range(KeySeq4)
\* "a"=97 "B"=66 "b"=98: byte order B < a < b, folded order a < B = b (the two orders disagree)
KeySeq5 == <<<<97>>, <<66>>, <<98>>>>
Keys5 == Range(KeySeq5)
QKeySeq5 == KeySeq5
\* long keys (lookups must compare every byte): members "a"x127 and "a"x128; looked up also in upper case and with a different last byte
RepB(c, n) == [i \in 1..n |-> c]
KeySeq6 == <<RepB(97, 127), RepB(97, 128)>>
Keys6 == Range(KeySeq6)
QKeySeq6 == <<RepB(97, 127), RepB(97, 128), RepB(65, 128), RepB(97, 127) \o <<98>>, RepB(97, 129), RepB(65, 127)>>
\* a long and an empty string value (SetValuestring shrinking / growing by more than 64 bytes)
StrSeq4 == <<<<>>, RepB(120, 70), <<120>>, <<121>>>>        \* "x" and "y": same length, different text (in-place copy)
Strs4 == Range(StrSeq4)
QKeySeq1 == <<<<97>>, <<65>>>>
QKeySeq2 == <<<<97>>, <<65>>, <<98>>>>
QKeySeq3 == KeySeq3
StrSeq2 == <<<<>>, <<120>>>>
StrSeq3 == <<<<>>, <<120>>, <<120, 121>>>>
Keys2 == Range(KeySeq2)
Keys3 == Range(KeySeq3)
Strs2 == Range(StrSeq2)
Strs3 == Range(StrSeq3)
KindsQuick == {"null", "num", "str", "arr", "obj"}
KindsAll   == {"null", "true", "false", "num", "str", "raw", "arr", "obj"}
FeatAll  == {"arr", "obj", "ptr", "ref", "cs", "fail", "bulk", "dup", "replace", "sethelpers", "addnew", "null"}
\* dimension-split instances (DESIGN 6/C06): structure, keys, references/ownership, failure, duplication
FeatS == {"arr", "ptr", "replace", "null"}
FeatK == {"obj", "cs", "replace", "null"}
FeatKB == {"obj"}
\* duplicating object members that own a key and a string, every request of the copy refused in turn
FeatODF == {"obj", "cs", "dup", "fail"}
\* constant keys under a refused request: an item that carries a constant key from an earlier life is added / used as a replacement by key
FeatCF == {"obj", "cs", "fail", "replace"}
\* bulk array constructors (count -1..2, NULL input) and what array edits do to the arrays they made
FeatB == {"arr", "bulk", "ptr"}
FeatSV == {"sethelpers", "fail", "arr"}
FeatAN == {"addnew", "fail", "obj", "null"}
KindsStr == {"str", "arr"}
FeatRS == {"arr", "ref"}
FeatO == {"obj", "cs", "ref", "dup", "sethelpers", "replace", "alias"}
KindsO == {"str", "obj"}
FeatSort == {"obj", "sort", "arr"}
FeatSortMin == {"objadd", "sort"}
FeatSortR == {"obj", "sort", "ref", "dup"}
FeatDL == {"arr", "dup", "cycle", "fail"}
FeatDF == {"arr", "dup", "fail"}
FeatD4 == {"arr", "ptr", "ref", "dup", "sethelpers"}
FeatOD == {"obj", "cs", "dup"}
KindsSA == {"str", "arr"}
Strs1 == {<<120>>}
StrSeq1 == <<<<120>>>>
KindsA == {"arr"}
FeatRK == {"obj", "ref"}
\* a reference node whose child pointer designates an element in the middle of a chain (cJSON_CreateArrayReference(second element)), duplicated
FeatRD == {"addarr", "refcont", "dup"}
RDConstraint == Cardinality({i \in Live(h) : h[i].ref}) <= 1 /\ Cardinality(roots) <= 3
\* a reference to an item that stands in the middle of another container, with the key copy refused
FeatRF == {"arr", "refobj", "fail"}
\* keys "a" and "ba": the suffix of one is the other
KeySeq7 == <<<<97>>, <<98, 97>>>>
Keys7 == Range(KeySeq7)
QKeySeq7 == <<<<97>>, <<98, 97>>, <<65>>>>
FeatOS == {"obj", "cs", "alias", "suffix", "replace"}
\* a reference node inherits the constant-key bit of the item it refers to, loses it again when it is given a key of its own
FeatRC == {"cs", "refarr", "detarr", "replobj"}
KindsNAO == {"null", "arr", "obj"}
KindsAO == {"arr", "obj"}
\* sorting members that were attached with constant keys (nested objects carry the flag in their type word)
FeatSortCS == {"objadd", "cs", "sort"}
FeatR == {"arr", "obj", "ref", "cs", "dup", "sethelpers", "replace"}
FeatF == {"arr", "obj", "ref", "fail", "bulk", "dup", "addnew", "sethelpers", "replace"}
FeatD == {"arr", "obj", "ptr", "ref", "cs", "dup", "sethelpers"}
KindsS == {"null", "arr"}
KindsK == {"null", "obj"}
KindsR == {"str", "arr", "obj"}
KindsN == {"num", "arr"}
Keys1 == {<<97>>}
KeySeq1 == <<<<97>>>>
Nums1 == {1}
=============================================================================
