------------------------------ MODULE Trace_Lib ------------------------------
(***************************************************************************)
(* Reverse conformance for the library AS A WHOLE: one history mixes the     *)
(* tree edits of Tree.tla with the value-level calls of the other modules    *)
(* (parse, print, compare, JSON pointer, JSON patch, merge patch, patch and  *)
(* merge-patch generation) on ONE pool of nodes.  The state is the node heap *)
(* of Tree.tla; a value-level call is judged on ValueOf(h, i), the JSON      *)
(* value a node denotes:                                                      *)
(*   Parse(text)            JsonText:  must accept with TextValue / must      *)
(*                          reject and change nothing / open                  *)
(*   Print(i, fmt)          PrintMachine: Render bytes, or any RFC text that  *)
(*                          denotes the value (layout is open, C04/C05)       *)
(*   Compare(i, j, cs)      JsonValue: SemEq                                  *)
(*   GetPointer / FindPointer   Pointer: Resolve / PointerTo                  *)
(*   ApplyPatches(doc, patch text)      Patch: ApplyRFC                       *)
(*   MergePatch(target, patch text)     Patch: MergeRFC                       *)
(*   GeneratePatches / GenerateMergePatch(from, to)   the generated text is   *)
(*                          evaluated by ApplyRFC / MergeRFC                  *)
(* and after EVERY step the recorded heap (all links, flags, keys, strings)   *)
(* becomes the state, on which WellFormed is an invariant and from which the  *)
(* next tree edit must be a step of Tree.tla - so what a sorting utility or a *)
(* root replacement leaves behind is exercised by the calls that follow it    *)
(* (C19 second clause, C16 "remains a well-formed tree", C17/C18 "inputs can  *)
(* still be edited").                                                         *)
(* Input: ndjson named by environment variable TRACE (see vd_tree.c).         *)
(***************************************************************************)
EXTENDS Tree, TLC, Json, IOUtils, SequencesExt

PM == INSTANCE PrintMachine WITH MaxDepth <- 1000
PA == INSTANCE Patch

Tr == ndJsonDeserialize(IOEnv.TRACE)

VARIABLES h, roots, l
vars == <<h, roots, l>>

JNode(hh, rts, i) ==
  LET r == hh[i] IN
  IF r.k = "free" THEN <<>>
  ELSE <<r.k, r.ref, r.ck, r.nx, r.pv, r.ch, r.key, r.vs, r.num, r.of, r.sib, i \in rts>>
J(hh, rts) == [i \in Node |-> JNode(hh, rts, i)]

\* the recorded heap as a state of Tree.tla
RecOf(t) == IF t = <<>> THEN FreeRec
            ELSE [k |-> t[1], ref |-> t[2], ck |-> t[3], nx |-> t[4], pv |-> t[5], ch |-> t[6], key |-> t[7], vs |-> t[8],
                  num |-> t[9], of |-> t[10], sib |-> t[11]]
HeapOf(post) == [i \in Node |-> RecOf(post[i])]
RootsOf(post) == {i \in Node : post[i] # <<>> /\ post[i][12]}
\* links of the recording stay inside the pool (a link to memory the recorder does not know is logged as -1)
Sane(post) == \A i \in Node : post[i] # <<>> => post[i][4] \in 0..N /\ post[i][5] \in 0..N /\ post[i][6] \in 0..N

(***************************************************************************)
(* The JSON value a node denotes.  Numbers of the recorded histories are     *)
(* 0, 1, 2: catalogue ids N_zero, N_one, N_two.                               *)
(***************************************************************************)
IntId(n) == CASE n = 0 -> PA!N_zero [] n = 1 -> PA!N_one [] n = 2 -> PA!N_two [] OTHER -> PA!N_zero
RECURSIVE ValueOf(_, _, _)
ValueOf(hh, i, fuel) ==
  LET r == hh[i] kids == Kids(hh, i) IN
  CASE r.k = "null"  -> PA!VNull
    [] r.k = "true"  -> PA!VTrue
    [] r.k = "false" -> PA!VFalse
    [] r.k = "num"   -> PA!VNum(IntId(r.num))
    [] r.k = "str"   -> PA!VStr(r.vs)
    [] r.k = "raw"   -> PA!VRaw(r.vs)
    [] r.k = "arr"   -> PA!VArr([j \in DOMAIN kids |-> IF fuel = 0 THEN PA!VNull ELSE ValueOf(hh, kids[j], fuel - 1)])
    [] r.k = "obj"   -> PA!VObj([j \in DOMAIN kids |-> <<hh[kids[j]].key, IF fuel = 0 THEN PA!VNull ELSE ValueOf(hh, kids[j], fuel - 1)>>])
    [] OTHER         -> PA!VNull
Val(hh, i) == ValueOf(hh, i, N)

\* the value of a text: number lexemes "0" "1" "2" become the catalogue ids
RECURSIVE Cat(_)
Cat(v) == IF v.t = "num" THEN (IF v.s = <<48>> THEN PA!VNum(PA!N_zero) ELSE IF v.s = <<49>> THEN PA!VNum(PA!N_one) ELSE IF v.s = <<50>> THEN PA!VNum(PA!N_two) ELSE v)
          ELSE [v EXCEPT !.m = [j \in DOMAIN v.m |-> [k |-> v.m[j].k, v |-> Cat(v.m[j].v)]]]
TextVal(t) == Cat(PM!TextValue(t, "rfc"))

RECURSIVE AllDistinct(_, _)
AllDistinct(v, cs) == (v.t = "obj" => PA!DistinctKeys(v, cs)) /\ \A j \in DOMAIN v.m : AllDistinct(v.m[j].v, cs)
RECURSIVE HasRaw(_)
HasRaw(v) == v.t = "raw" \/ \E j \in DOMAIN v.m : HasRaw(v.m[j].v)
RECURSIVE KeyedObjs(_)     \* every object member carries a name (a pointer, not NULL)
KeyedObjs(v) == (v.t = "obj" => \A j \in DOMAIN v.m : v.m[j].k # PA!NoKey) /\ \A j \in DOMAIN v.m : KeyedObjs(v.m[j].v)
Plain(v) == AllDistinct(v, TRUE) /\ ~HasRaw(v) /\ KeyedObjs(v)       \* a JSON document in the sense of C15 - C18

RECURSIVE NodeAt(_, _, _)
NodeAt(hh, i, path) == IF path = <<>> THEN i ELSE NodeAt(hh, Kids(hh, i)[path[1]], Tail(path))
RECURSIVE PathTo(_, _, _, _)
\* position path from i down to target, <<-1>> when target is not below i
PathTo(hh, i, target, fuel) ==
  IF i = target THEN <<>>
  ELSE IF fuel = 0 THEN <<-1>>
  ELSE LET kids == Kids(hh, i)
           hits == {j \in DOMAIN kids : PathTo(hh, kids[j], target, fuel - 1) # <<-1>>} IN
       IF hits = {} THEN <<-1>> ELSE LET j == CHOOSE j \in hits : TRUE IN <<j>> \o PathTo(hh, kids[j], target, fuel - 1)

RECURSIVE Blur(_)
Blur(v) == IF v.t = "num" THEN PA!VNum(0) ELSE [v EXCEPT !.m = [j \in DOMAIN v.m |-> [k |-> v.m[j].k, v |-> Blur(v.m[j].v)]]]

(***************************************************************************)
(* Tree edits: exactly Trace_Tree                                            *)
(***************************************************************************)
Dispatch(hh, rts, a) ==
  LET n == a[1] IN
  CASE n = "Create" -> CreateLeaf(hh, rts, a[2], a[3])
    [] n = "CreateNumber" -> CreateNumber(hh, rts, a[2], a[3])
    [] n = "CreateStr" -> CreateStr(hh, rts, a[2], a[3], a[4])
    [] n = "AddItemToArray" -> AddItemToArray(hh, rts, a[2], a[3])
    [] n = "AddItemToObject" -> AddItemToObject(hh, rts, a[2], a[3], a[4], FALSE, a[5])
    [] n = "AddItemToObjectCS" -> AddItemToObject(hh, rts, a[2], a[3], a[4], TRUE, a[5])
    [] n = "AddItemToObjectAlias" -> AddItemToObject(hh, rts, a[2], hh[a[3]].key, a[3], FALSE, a[4])
    [] n = "AddNewToObject" -> AddNewToObject(hh, rts, a[2], a[3], a[4], a[5], a[6], a[7])
    [] n = "DetachItemViaPointer" -> DetachItemViaPointer(hh, rts, a[2], a[3])
    [] n = "DetachItemFromArray" -> DetachItemFromArray(hh, rts, a[2], a[3])
    [] n = "DetachItemFromObject" -> DetachItemFromObject(hh, rts, a[2], a[3], FALSE)
    [] n = "DetachItemFromObjectCaseSensitive" -> DetachItemFromObject(hh, rts, a[2], a[3], TRUE)
    [] n = "Delete" -> Delete(hh, rts, a[2])
    [] n = "DeleteItemFromArray" -> DeleteAfterDetach(DetachItemFromArray(hh, rts, a[2], a[3]))
    [] n = "DeleteItemFromObject" -> DeleteAfterDetach(DetachItemFromObject(hh, rts, a[2], a[3], FALSE))
    [] n = "DeleteItemFromObjectCaseSensitive" -> DeleteAfterDetach(DetachItemFromObject(hh, rts, a[2], a[3], TRUE))
    [] n = "InsertItemInArray" -> InsertItemInArray(hh, rts, a[2], a[3], a[4])
    [] n = "ReplaceItemViaPointer" -> ReplaceItemViaPointer(hh, rts, a[2], a[3], a[4])
    [] n = "ReplaceItemInArray" -> ReplaceItemInArray(hh, rts, a[2], a[3], a[4])
    [] n = "ReplaceItemInObject" -> ReplaceItemInObject(hh, rts, a[2], a[3], a[4], FALSE, a[5])
    [] n = "ReplaceItemInObjectCaseSensitive" -> ReplaceItemInObject(hh, rts, a[2], a[3], a[4], TRUE, a[5])
    [] n = "SetNumberHelper" -> SetNumber(hh, rts, a[2], a[3])
    [] n = "SetValuestring" -> SetValuestring(hh, rts, a[2], a[3], a[4])
    [] n = "SetBoolValue" -> SetBool(hh, rts, a[2], a[3])
    [] n = "Duplicate" -> Duplicate(hh, rts, a[2], a[3], a[4])
    [] OTHER -> <<>>

Q(hh) == [p \in Node |->
            IF hh[p].k \in {"arr", "obj"} /\ ~hh[p].ref THEN <<Len(Kids(hh, p)), Kids(hh, p)>> ELSE <<>>]

SortMatches(ev) ==
  LET p == ev.a[2] cs == ev.a[3]
      RECURSIVE chain(_, _)
      chain(c, fuel) == IF c = 0 \/ fuel = 0 THEN <<>> ELSE <<c>> \o chain(ev.post[c][4], fuel - 1)
      seq == chain(ev.post[p][6], N)
  IN /\ Len(seq) = Len(Kids(h, p)) /\ {seq[i] : i \in DOMAIN seq} = {Kids(h, p)[i] : i \in DOMAIN seq}
     /\ SortedBy(h, seq, cs)
     /\ J(Relink(h, p, seq), roots) = ev.post

Matches(ev, o) == J(o.h, o.roots) = ev.post /\ o.res = ev.res /\ Q(o.h) = ev.q

ValueCalls == {"Parse", "Print", "Compare", "GetPointer", "FindPointer", "ApplyPatches", "MergePatch", "GeneratePatches", "GenerateMergePatch"}

(***************************************************************************)
(* Value-level calls.  hp / rp: the recorded heap after the call.            *)
(***************************************************************************)
Unchanged(ev) == ev.post = J(h, roots)
\* every node that was live and is not below one of the given nodes is exactly as it was
OutsideSame(ev, tops) ==
  LET inside == UNION {Subtree(h, t) : t \in tops} IN
  \A i \in Live(h) \ inside : ev.post[i] = JNode(h, roots, i)

ParseOK(ev) ==
  LET text == ev.a[2] hp == HeapOf(ev.post) rp == RootsOf(ev.post)
      must == PM!IsText(text, "rfc") /\ PM!WithinLimits(PM!TextValue(text, "rfc"))
      never == ~PM!LeadingValue(text, "lenient").ok
      newids == {i \in Node : h[i].k = "free" /\ ev.post[i] # <<>>}
  IN IF ev.res.t = "null" THEN ~must /\ Unchanged(ev)
     ELSE /\ ~never
          /\ ev.res.t = "ptr" /\ ev.res.id \in newids
          /\ OutsideSame(ev, {})
          /\ rp = roots \cup {ev.res.id}
          /\ newids = Subtree(hp, ev.res.id)
          /\ \A i \in newids : ~hp[i].ref /\ ~hp[i].ck
          /\ (must => Val(hp, ev.res.id) = TextVal(text))

PrintOK(ev) ==
  LET i == ev.a[2] fmt == ev.a[3] v == Val(h, i) IN
  /\ Unchanged(ev)
  /\ ev.res.t = "text"
  /\ \/ ev.res.v = PM!Render(v, fmt, 0)
     \/ HasRaw(v)
     \/ (PM!IsText(ev.res.v, "rfc") /\ PA!StrictEq(Blur(PM!TextValue(ev.res.v, "rfc")), Blur(v)))

CompareOK(ev) ==
  LET a == Val(h, ev.a[2]) b == Val(h, ev.a[3]) cs == ev.a[4] IN
  /\ Unchanged(ev)
  /\ ev.res.t = "bool"
  /\ (AllDistinct(a, cs) /\ AllDistinct(b, cs) /\ KeyedObjs(a) /\ KeyedObjs(b)) => ev.res.v = PA!SemEq(a, b, cs)

GetPointerOK(ev) ==
  LET root == ev.a[2] ptr == ev.a[3] v == Val(h, root) p == PA!Resolve(v, ptr) IN
  /\ Unchanged(ev)
  /\ (AllDistinct(v, TRUE) /\ KeyedObjs(v)) =>
        IF p = PA!NoPath THEN ev.res.t = "null" ELSE ev.res = [t |-> "ptr", id |-> NodeAt(h, root, p)]

FindPointerOK(ev) ==
  LET root == ev.a[2] target == ev.a[3] v == Val(h, root) p == PathTo(h, root, target, N) IN
  /\ Unchanged(ev)
  /\ KeyedObjs(v) => IF p = <<-1>> THEN ev.res.t = "null" ELSE ev.res = [t |-> "text", v |-> PA!PointerTo(v, p)]

ApplyOK(ev) ==
  LET doc == ev.a[2] vd == Val(h, doc) vp == TextVal(ev.a[3]) hp == HeapOf(ev.post)
      r == PA!ApplyRFC(vd, vp) IN
  /\ ev.res.t = "int"
  /\ OutsideSame(ev, {doc})
  /\ RootsOf(ev.post) = roots
  /\ (Plain(vd) /\ AllDistinct(vp, TRUE)) =>
        /\ (r.ok => ev.res.v = 0 /\ PA!SemEq(Val(hp, doc), r.doc, TRUE))
        /\ (~r.ok /\ ~r.open => ev.res.v # 0)

MergeOK(ev) ==
  LET target == ev.a[2] vt == Val(h, target) vp == TextVal(ev.a[3]) hp == HeapOf(ev.post) IN
  /\ ev.res.t = "ptr"
  /\ OutsideSame(ev, {target})
  /\ RootsOf(ev.post) = (roots \ {target}) \cup {ev.res.id}
  /\ (Plain(vt) /\ AllDistinct(vp, TRUE)) => PA!SemEq(Val(hp, ev.res.id), PA!MergeRFC(vt, vp), TRUE)

\* the inputs of a generation call are equal in value to what they were, nothing was created or released, nothing else was touched
InputsKept(ev, from, to) ==
  LET hp == HeapOf(ev.post) IN
  /\ OutsideSame(ev, {from, to})
  /\ RootsOf(ev.post) = roots /\ Live(hp) = Live(h)
  /\ PA!SemEq(Val(hp, from), Val(h, from), TRUE) /\ PA!SemEq(Val(hp, to), Val(h, to), TRUE)

GenPatchOK(ev) ==
  LET from == ev.a[2] to == ev.a[3] vf == Val(h, from) vt == Val(h, to) IN
  (Plain(vf) /\ Plain(vt)) =>
     /\ ev.res.t = "text" /\ PM!IsText(ev.res.v, "rfc")
     /\ InputsKept(ev, from, to)
     /\ LET vp == TextVal(ev.res.v) r == PA!ApplyRFC(vf, vp) IN
        /\ vp.t = "arr"
        /\ r.ok /\ PA!SemEq(r.doc, vt, TRUE)
        /\ (vp.m = <<>>) <=> PA!SemEq(vf, vt, TRUE)

GenMergeOK(ev) ==
  LET from == ev.a[2] to == ev.a[3] vf == Val(h, from) vt == Val(h, to) IN
  (Plain(vf) /\ Plain(vt) /\ ~PA!HasNullMember(vt)) =>
     /\ InputsKept(ev, from, to)
     /\ IF ev.res.t = "null" THEN PA!SemEq(vf, vt, TRUE)
        ELSE ev.res.t = "text" /\ PM!IsText(ev.res.v, "rfc") /\ PA!SemEq(PA!MergeRFC(vf, TextVal(ev.res.v)), vt, TRUE)

ValueOK(ev) ==
  /\ Sane(ev.post)
  /\ LET n == ev.a[1] IN
     CASE n = "Parse" -> ParseOK(ev)
       [] n = "Print" -> PrintOK(ev)
       [] n = "Compare" -> CompareOK(ev)
       [] n = "GetPointer" -> GetPointerOK(ev)
       [] n = "FindPointer" -> FindPointerOK(ev)
       [] n = "ApplyPatches" -> ApplyOK(ev)
       [] n = "MergePatch" -> MergeOK(ev)
       [] n = "GeneratePatches" -> GenPatchOK(ev)
       [] n = "GenerateMergePatch" -> GenMergeOK(ev)
       [] OTHER -> FALSE

\* a call whose new nodes the recorder's pool could not name: the recorder ends the history there, nothing is concluded from it
Skipped(ev) == "skip" \in DOMAIN ev
\* vacuity control: was the verdict on this value-level call determined by the specification, or left open by a precondition
\* (duplicate keys, raw items, a null member in 'to', an open class of the grammar or of the RFC)?
Determined(ev) ==
  LET n == ev.a[1] IN
  CASE n = "Parse" -> (PM!IsText(ev.a[2], "rfc") /\ PM!WithinLimits(PM!TextValue(ev.a[2], "rfc"))) \/ ~PM!LeadingValue(ev.a[2], "lenient").ok
    [] n = "Print" -> ~HasRaw(Val(h, ev.a[2]))
    [] n = "Compare" -> LET a == Val(h, ev.a[2]) b == Val(h, ev.a[3]) IN AllDistinct(a, ev.a[4]) /\ AllDistinct(b, ev.a[4]) /\ KeyedObjs(a) /\ KeyedObjs(b)
    [] n = "GetPointer" -> LET v == Val(h, ev.a[2]) IN AllDistinct(v, TRUE) /\ KeyedObjs(v)
    [] n = "FindPointer" -> KeyedObjs(Val(h, ev.a[2]))
    [] n = "ApplyPatches" -> LET vd == Val(h, ev.a[2]) vp == TextVal(ev.a[3]) IN Plain(vd) /\ AllDistinct(vp, TRUE) /\ ~PA!ApplyRFC(vd, vp).open
    [] n = "MergePatch" -> Plain(Val(h, ev.a[2])) /\ AllDistinct(TextVal(ev.a[3]), TRUE)
    [] n = "GeneratePatches" -> Plain(Val(h, ev.a[2])) /\ Plain(Val(h, ev.a[3]))
    [] n = "GenerateMergePatch" -> Plain(Val(h, ev.a[2])) /\ Plain(Val(h, ev.a[3])) /\ ~PA!HasNullMember(Val(h, ev.a[3]))
    [] OTHER -> TRUE
Empty == [i \in Node |-> FreeRec]
Init == h = Empty /\ roots = {} /\ l = 1

CanConsume ==
  LET ev == Tr[l] IN
  IF ev.e = "Reset" \/ Skipped(ev) THEN TRUE
  ELSE IF ev.a[1] \in ValueCalls THEN ValueOK(ev)
  ELSE IF ev.a[1] = "SortObject" THEN SortMatches(ev)
  ELSE \E k \in DOMAIN Dispatch(h, roots, ev.a) : Matches(ev, Dispatch(h, roots, ev.a)[k])

Consume ==
  /\ l >= 1 /\ l <= Len(Tr) /\ CanConsume
  /\ LET ev == Tr[l] IN
     IF ev.e = "Reset" \/ Skipped(ev) THEN h' = Empty /\ roots' = {} /\ l' = l + 1
     ELSE IF ev.a[1] \in ValueCalls
          THEN h' = HeapOf(ev.post) /\ roots' = RootsOf(ev.post) /\ l' = l + 1 /\ PrintT(<<"D", ev.a[1], Determined(ev)>>)
     ELSE IF ev.a[1] = "SortObject"
          THEN LET p == ev.a[2]
                   RECURSIVE chain(_, _)
                   chain(c, fuel) == IF c = 0 \/ fuel = 0 THEN <<>> ELSE <<c>> \o chain(ev.post[c][4], fuel - 1)
               IN h' = Relink(h, p, chain(ev.post[p][6], N)) /\ roots' = roots /\ l' = l + 1
          ELSE LET outs == Dispatch(h, roots, ev.a)
                   k == CHOOSE k \in DOMAIN outs : Matches(ev, outs[k])
               IN h' = outs[k].h /\ roots' = outs[k].roots /\ l' = l + 1
Reject == l >= 1 /\ l <= Len(Tr) /\ ~CanConsume /\ l' = 0 - l /\ UNCHANGED <<h, roots>>
Finish == (l = Len(Tr) + 1 \/ l < 0) /\ UNCHANGED vars
Next == Consume \/ Reject \/ Finish

InvWellFormed == l < 0 \/ WellFormed(h, roots)
InvNoLeak == roots = {} => Live(h) = {}
Accepted == /\ (l = Len(Tr) + 1 => PrintT(<<"TRACE-ACCEPTED", Len(Tr)>>))
            /\ (l < 0 => PrintT(<<"TRACE-REJECTED", 0 - l>>))
=============================================================================
