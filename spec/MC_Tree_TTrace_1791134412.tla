---- MODULE MC_Tree_TTrace_1791134412 ----
EXTENDS MC_Tree, Sequences, TLCExt, Toolbox, Naturals, TLC

_expression ==
    LET MC_Tree_TEExpression == INSTANCE MC_Tree_TEExpression
    IN MC_Tree_TEExpression!expression
----

_trace ==
    LET MC_Tree_TETrace == INSTANCE MC_Tree_TETrace
    IN MC_Tree_TETrace!trace
----

_inv ==
    ~(
        TLCGet("level") = Len(_TETrace)
        /\
        res = ([t |-> "bool", v |-> TRUE])
        /\
        h = (<<[k |-> "obj", ref |-> FALSE, ck |-> FALSE, nx |-> 0, pv |-> 0, ch |-> 2, key |-> <<-1>>, vs |-> <<-1>>, num |-> 0, of |-> 0, sib |-> FALSE], [k |-> "null", ref |-> FALSE, ck |-> FALSE, nx |-> 3, pv |-> 3, ch |-> 0, key |-> <<65>>, vs |-> <<-1>>, num |-> 0, of |-> 0, sib |-> FALSE], [k |-> "null", ref |-> FALSE, ck |-> FALSE, nx |-> 0, pv |-> 2, ch |-> 0, key |-> <<65>>, vs |-> <<-1>>, num |-> 0, of |-> 0, sib |-> FALSE], [k |-> "free", ref |-> FALSE, ck |-> FALSE, nx |-> 0, pv |-> 0, ch |-> 0, key |-> <<-1>>, vs |-> <<-1>>, num |-> 0, of |-> 0, sib |-> FALSE]>>)
        /\
        roots = ({1})
    )
----

_init ==
    /\ res = _TETrace[1].res
    /\ roots = _TETrace[1].roots
    /\ h = _TETrace[1].h
----

_next ==
    /\ \E i,j \in DOMAIN _TETrace:
        /\ \/ /\ j = i + 1
              /\ i = TLCGet("level")
        /\ res  = _TETrace[i].res
        /\ res' = _TETrace[j].res
        /\ roots  = _TETrace[i].roots
        /\ roots' = _TETrace[j].roots
        /\ h  = _TETrace[i].h
        /\ h' = _TETrace[j].h

\* Uncomment the ASSUME below to write the states of the error trace
\* to the given file in Json format. Note that you can pass any tuple
\* to `JsonSerialize`. For example, a sub-sequence of _TETrace.
    \* ASSUME
    \*     LET J == INSTANCE Json
    \*         IN J!JsonSerialize("MC_Tree_TTrace_1791134412.json", _TETrace)

=============================================================================

 Note that you can extract this module `MC_Tree_TEExpression`
  to a dedicated file to reuse `expression` (the module in the 
  dedicated `MC_Tree_TEExpression.tla` file takes precedence 
  over the module `MC_Tree_TEExpression` below).

---- MODULE MC_Tree_TEExpression ----
EXTENDS MC_Tree, Sequences, TLCExt, Toolbox, Naturals, TLC

expression == 
    [
        \* To hide variables of the `MC_Tree` spec from the error trace,
        \* remove the variables below.  The trace will be written in the order
        \* of the fields of this record.
        res |-> res
        ,roots |-> roots
        ,h |-> h
        
        \* Put additional constant-, state-, and action-level expressions here:
        \* ,_stateNumber |-> _TEPosition
        \* ,_resUnchanged |-> res = res'
        
        \* Format the `res` variable as Json value.
        \* ,_resJson |->
        \*     LET J == INSTANCE Json
        \*     IN J!ToJson(res)
        
        \* Lastly, you may build expressions over arbitrary sets of states by
        \* leveraging the _TETrace operator.  For example, this is how to
        \* count the number of times a spec variable changed up to the current
        \* state in the trace.
        \* ,_resModCount |->
        \*     LET F[s \in DOMAIN _TETrace] ==
        \*         IF s = 1 THEN 0
        \*         ELSE IF _TETrace[s].res # _TETrace[s-1].res
        \*             THEN 1 + F[s-1] ELSE F[s-1]
        \*     IN F[_TEPosition - 1]
    ]

=============================================================================



Parsing and semantic processing can take forever if the trace below is long.
 In this case, it is advised to uncomment the module below to deserialize the
 trace from a generated binary file.

\*
\*---- MODULE MC_Tree_TETrace ----
\*EXTENDS MC_Tree, IOUtils, TLC
\*
\*trace == IODeserialize("MC_Tree_TTrace_1791134412.bin", TRUE)
\*
\*=============================================================================
\*

---- MODULE MC_Tree_TETrace ----
EXTENDS MC_Tree, TLC

trace == 
    <<
    ([res |-> [t |-> "null"],h |-> <<[k |-> "free", ref |-> FALSE, ck |-> FALSE, nx |-> 0, pv |-> 0, ch |-> 0, key |-> <<-1>>, vs |-> <<-1>>, num |-> 0, of |-> 0, sib |-> FALSE], [k |-> "free", ref |-> FALSE, ck |-> FALSE, nx |-> 0, pv |-> 0, ch |-> 0, key |-> <<-1>>, vs |-> <<-1>>, num |-> 0, of |-> 0, sib |-> FALSE], [k |-> "free", ref |-> FALSE, ck |-> FALSE, nx |-> 0, pv |-> 0, ch |-> 0, key |-> <<-1>>, vs |-> <<-1>>, num |-> 0, of |-> 0, sib |-> FALSE], [k |-> "free", ref |-> FALSE, ck |-> FALSE, nx |-> 0, pv |-> 0, ch |-> 0, key |-> <<-1>>, vs |-> <<-1>>, num |-> 0, of |-> 0, sib |-> FALSE]>>,roots |-> {}]),
    ([res |-> [t |-> "ptr", id |-> 1],h |-> <<[k |-> "obj", ref |-> FALSE, ck |-> FALSE, nx |-> 0, pv |-> 0, ch |-> 0, key |-> <<-1>>, vs |-> <<-1>>, num |-> 0, of |-> 0, sib |-> FALSE], [k |-> "free", ref |-> FALSE, ck |-> FALSE, nx |-> 0, pv |-> 0, ch |-> 0, key |-> <<-1>>, vs |-> <<-1>>, num |-> 0, of |-> 0, sib |-> FALSE], [k |-> "free", ref |-> FALSE, ck |-> FALSE, nx |-> 0, pv |-> 0, ch |-> 0, key |-> <<-1>>, vs |-> <<-1>>, num |-> 0, of |-> 0, sib |-> FALSE], [k |-> "free", ref |-> FALSE, ck |-> FALSE, nx |-> 0, pv |-> 0, ch |-> 0, key |-> <<-1>>, vs |-> <<-1>>, num |-> 0, of |-> 0, sib |-> FALSE]>>,roots |-> {1}]),
    ([res |-> [t |-> "ptr", id |-> 2],h |-> <<[k |-> "obj", ref |-> FALSE, ck |-> FALSE, nx |-> 0, pv |-> 0, ch |-> 0, key |-> <<-1>>, vs |-> <<-1>>, num |-> 0, of |-> 0, sib |-> FALSE], [k |-> "null", ref |-> FALSE, ck |-> FALSE, nx |-> 0, pv |-> 0, ch |-> 0, key |-> <<-1>>, vs |-> <<-1>>, num |-> 0, of |-> 0, sib |-> FALSE], [k |-> "free", ref |-> FALSE, ck |-> FALSE, nx |-> 0, pv |-> 0, ch |-> 0, key |-> <<-1>>, vs |-> <<-1>>, num |-> 0, of |-> 0, sib |-> FALSE], [k |-> "free", ref |-> FALSE, ck |-> FALSE, nx |-> 0, pv |-> 0, ch |-> 0, key |-> <<-1>>, vs |-> <<-1>>, num |-> 0, of |-> 0, sib |-> FALSE]>>,roots |-> {1, 2}]),
    ([res |-> [t |-> "bool", v |-> TRUE],h |-> <<[k |-> "obj", ref |-> FALSE, ck |-> FALSE, nx |-> 0, pv |-> 0, ch |-> 2, key |-> <<-1>>, vs |-> <<-1>>, num |-> 0, of |-> 0, sib |-> FALSE], [k |-> "null", ref |-> FALSE, ck |-> FALSE, nx |-> 0, pv |-> 2, ch |-> 0, key |-> <<65>>, vs |-> <<-1>>, num |-> 0, of |-> 0, sib |-> FALSE], [k |-> "free", ref |-> FALSE, ck |-> FALSE, nx |-> 0, pv |-> 0, ch |-> 0, key |-> <<-1>>, vs |-> <<-1>>, num |-> 0, of |-> 0, sib |-> FALSE], [k |-> "free", ref |-> FALSE, ck |-> FALSE, nx |-> 0, pv |-> 0, ch |-> 0, key |-> <<-1>>, vs |-> <<-1>>, num |-> 0, of |-> 0, sib |-> FALSE]>>,roots |-> {1}]),
    ([res |-> [t |-> "ptr", id |-> 3],h |-> <<[k |-> "obj", ref |-> FALSE, ck |-> FALSE, nx |-> 0, pv |-> 0, ch |-> 2, key |-> <<-1>>, vs |-> <<-1>>, num |-> 0, of |-> 0, sib |-> FALSE], [k |-> "null", ref |-> FALSE, ck |-> FALSE, nx |-> 0, pv |-> 2, ch |-> 0, key |-> <<65>>, vs |-> <<-1>>, num |-> 0, of |-> 0, sib |-> FALSE], [k |-> "null", ref |-> FALSE, ck |-> FALSE, nx |-> 0, pv |-> 0, ch |-> 0, key |-> <<-1>>, vs |-> <<-1>>, num |-> 0, of |-> 0, sib |-> FALSE], [k |-> "free", ref |-> FALSE, ck |-> FALSE, nx |-> 0, pv |-> 0, ch |-> 0, key |-> <<-1>>, vs |-> <<-1>>, num |-> 0, of |-> 0, sib |-> FALSE]>>,roots |-> {1, 3}]),
    ([res |-> [t |-> "bool", v |-> TRUE],h |-> <<[k |-> "obj", ref |-> FALSE, ck |-> FALSE, nx |-> 0, pv |-> 0, ch |-> 2, key |-> <<-1>>, vs |-> <<-1>>, num |-> 0, of |-> 0, sib |-> FALSE], [k |-> "null", ref |-> FALSE, ck |-> FALSE, nx |-> 3, pv |-> 3, ch |-> 0, key |-> <<65>>, vs |-> <<-1>>, num |-> 0, of |-> 0, sib |-> FALSE], [k |-> "null", ref |-> FALSE, ck |-> FALSE, nx |-> 0, pv |-> 2, ch |-> 0, key |-> <<65>>, vs |-> <<-1>>, num |-> 0, of |-> 0, sib |-> FALSE], [k |-> "free", ref |-> FALSE, ck |-> FALSE, nx |-> 0, pv |-> 0, ch |-> 0, key |-> <<-1>>, vs |-> <<-1>>, num |-> 0, of |-> 0, sib |-> FALSE]>>,roots |-> {1}])
    >>
----


=============================================================================

---- CONFIG MC_Tree_TTrace_1791134412 ----
CONSTANTS
    N = 4
    Keys <- Keys3
    KeySeq <- KeySeq3
    QKeySeq <- QKeySeq3
    Strs <- Strs2
    StrSeq <- StrSeq2
    Nums = { 1 }
    LeafKinds <- KindsK
    Features <- FeatSort
    MaxFail = 0
    CircularLimit = 2
    Emit = TRUE

INVARIANT
    _inv

CHECK_DEADLOCK
    \* CHECK_DEADLOCK off because of PROPERTY or INVARIANT above.
    FALSE

INIT
    _init

NEXT
    _next

CONSTANT
    _TETrace <- _trace

ALIAS
    _expression
=============================================================================
\* Generated on Sun Oct 04 17:20:14 UTC 2026