------------------------------ MODULE HooksCore ------------------------------
(***************************************************************************)
(* The allocator-routing machine of Hooks.tla without its emission          *)
(* (PrintT / ToJson) and without the bound on what the caller may hold:      *)
(* the state machine TLAPS proves the C14 invariants for, for histories of   *)
(* any length and any number of held objects.  Hooks.tla is this machine     *)
(* plus emission and the bound MaxHeld (refinement checked by TLC:           *)
(* Hooks!Next => HooksCore!Next on every explored transition).              *)
(***************************************************************************)
EXTENDS Integers, Sequences, FiniteSets

User == "user"
Libc == "libc"
None == "none"
Who == {User, Libc, None}

\* arguments of cJSON_InitHooks: NULL, or a struct whose members may be NULL (m, f are irrelevant when null; Hooks.tla enumerates the five that differ)
HookArgs == [null : BOOLEAN, m : BOOLEAN, f : BOOLEAN]

VARIABLES eff, held, last
vars == <<eff, held, last>>

Default == [alloc |-> Libc, dealloc |-> Libc, realloc |-> Libc]

Select(a) ==
  IF a.null THEN Default
  ELSE LET al == IF a.m THEN User ELSE Libc
           de == IF a.f THEN User ELSE Libc
           re == IF al = Libc /\ de = Libc THEN Libc ELSE None
       IN [alloc |-> al, dealloc |-> de, realloc |-> re]

Grow(h) == IF h.realloc # None THEN {[ev |-> "realloc", by |-> h.realloc]}
           ELSE {[ev |-> "alloc", by |-> h.alloc], [ev |-> "free", by |-> h.dealloc]}
Kinds == {"transient_tree", "transient_print", "hold_tree", "hold_text"}
Events(kind, h) ==
  CASE kind = "transient_tree" -> {[ev |-> "alloc", by |-> h.alloc], [ev |-> "free", by |-> h.dealloc]}
    [] kind = "transient_print" -> {[ev |-> "alloc", by |-> h.alloc], [ev |-> "free", by |-> h.dealloc]} \cup Grow(h)
    [] kind = "hold_tree" -> {[ev |-> "alloc", by |-> h.alloc]}
    [] kind = "hold_text" -> {[ev |-> "alloc", by |-> h.alloc], [ev |-> "free", by |-> h.dealloc]} \cup Grow(h)
    [] kind = "release" -> {[ev |-> "free", by |-> h.dealloc]}
    [] OTHER -> {}

Init == eff = Default /\ held = <<>> /\ last = {}

InitHooks(a) == /\ held = <<>>
                /\ eff' = Select(a) /\ held' = held /\ last' = {}

Call(kind) ==
  /\ kind \in Kinds
  /\ eff' = eff /\ last' = Events(kind, eff)
  /\ held' = IF kind = "hold_tree" THEN Append(held, [what |-> "tree", origin |-> eff.alloc])
             ELSE IF kind = "hold_text" THEN Append(held, [what |-> "text", origin |-> IF eff.realloc # None THEN eff.realloc ELSE eff.alloc])
             ELSE held

Release(i) ==
  /\ i \in DOMAIN held
  /\ eff' = eff /\ last' = Events("release", eff)
  /\ held' = [j \in 1..(Len(held) - 1) |-> IF j < i THEN held[j] ELSE held[j + 1]]

Next == (\E a \in HookArgs : InitHooks(a)) \/ (\E k \in Kinds : Call(k)) \/ (\E i \in DOMAIN held : Release(i))
Spec == Init /\ [][Next]_vars

BothCustom == eff.alloc = User /\ eff.dealloc = User
NoLibc == BothCustom => \A e \in last : e.by = User /\ e.ev # "realloc"
ReallocOnlyDefault == \A e \in last : e.ev = "realloc" => (eff.alloc = Libc /\ eff.dealloc = Libc)
Counterpart == (BothCustom \/ eff = Default) => \A i \in DOMAIN held : held[i].origin = eff.dealloc
Routed == \A e \in last : (e.ev = "alloc" => e.by = eff.alloc) /\ (e.ev = "free" => e.by = eff.dealloc) /\ (e.ev = "realloc" => e.by = eff.realloc /\ eff.realloc # None)
=============================================================================
