---------------------------- MODULE MC_TextCheck ----------------------------
(***************************************************************************)
(* Reverse conformance for printed text (C05): texts recorded from the real  *)
(* print functions that are not byte-identical to the predicted Render(v)    *)
(* are judged here by the declarative RFC 8259 grammar: the text must be one  *)
(* RFC text and denote the printed tree (numbers compared by position only;  *)
(* their numeric closeness is judged by the round trip in the driver).       *)
(* Input: ndjson file named by the environment variable DRIFT, one record     *)
(* {v: compact tree, fmt: bool, text: bytes} per line.                        *)
(***************************************************************************)
EXTENDS PrintMachine, TLC, Json, IOUtils

Cases == ndJsonDeserialize(IOEnv.DRIFT)

RECURSIVE FromJV(_)
FromJV(x) ==
  CASE x[1] = "n" -> VNull
    [] x[1] = "t" -> VTrue
    [] x[1] = "f" -> VFalse
    [] x[1] = "#" -> VNum(x[2])
    [] x[1] = "s" -> VStr(x[2])
    [] x[1] = "r" -> VRaw(x[2])
    [] x[1] = "a" -> VArr([i \in DOMAIN x[2] |-> FromJV(x[2][i])])
    [] x[1] = "o" -> VObj([i \in DOMAIN x[2] |-> <<x[2][i][1], FromJV(x[2][i][2])>>])

\* numbers are compared by position only
RECURSIVE Blur(_)
Blur(v) == IF v.t = "num" THEN VNum(0)
           ELSE [v EXCEPT !.m = [i \in DOMAIN v.m |-> [k |-> v.m[i].k, v |-> Blur(v.m[i].v)]]]

RECURSIVE HasRawV(_)
HasRawV(x) == x.t = "raw" \/ \E k \in DOMAIN x.m : HasRawV(x.m[k].v)
\* raw items are printed verbatim and carry no claim (C05 speaks of trees of null, booleans, numbers, strings, arrays, objects)
Verdict(c) == LET t == c.text v0 == FromJV(c.v) IN HasRawV(v0) \/ (IsText(t, "rfc") /\ StrictEq(Blur(TextValue(t, "rfc")), Blur(Canon(v0))))

VARIABLE i
Init == i = 1
Next == i < Len(Cases) /\ i' = i + 1
Judge == i <= Len(Cases) => PrintT(<<"V", i, Verdict(Cases[i])>>)
=============================================================================
