------------------------------- MODULE MC_Big -------------------------------
(***************************************************************************)
(* Cases beyond the small exhaustive scopes for functions whose meaning is   *)
(* size-independent: deep and wide trees for Duplicate (C11: the copy        *)
(* denotes the same value, StrictEq, and shares nothing), long member lists   *)
(* for sorting (C19: the result is a sorted permutation; judged by           *)
(* MC_UtilCheck on the recorded order).  The cases are generated here, the    *)
(* expectation is the specification's (value-level identity for Duplicate).  *)
(***************************************************************************)
EXTENDS PatchImpl, TLC, Json
CONSTANTS Mode, Emit, CircLimit, WithLimitCases, ScaleSizes
VARIABLES c, phase

N1 == VNum(N_one)
FoldUp(s) == [i \in DOMAIN s |-> IF s[i] \in 97..122 THEN s[i] - 32 ELSE s[i]]
MaxOf(S) == CHOOSE x \in S : \A y \in S : y <= x
RemB(a0, m0) == a0 - m0 * (a0 \div m0)
RECURSIVE DeepTrail(_)            \* [[...[[],1]...,1],1]: every level has a trailing sibling
DeepTrail(d) == IF d = 0 THEN VArr(<<>>) ELSE VArr(<<DeepTrail(d - 1), N1>>)
RECURSIVE DeepObj(_)
DeepObj(d) == IF d = 0 THEN VNull ELSE VObj(<< <<<<107>>, DeepObj(d - 1)>>, <<<<116>>, VStr(<<120>>)>> >>)
RECURSIVE DeepMix(_)
DeepMix(d) == IF d = 0 THEN VArr(<<N1, VNull>>) ELSE VArr(<<VObj(<< <<<<97>>, DeepMix(d - 1)>>, <<<<98>>, VTrue>> >>), VNull, VStr(<<121>>)>>)
RepC(ch, n) == [i \in 1..n |-> ch]
\* nesting around CJSON_CIRCULAR_LIMIT (CircLimit: 10000 in the default build, 2 in the limits2 build): the deep branch hangs off the first, the second or the last of three
\* children, in arrays and in objects.  Tree.tla (DupKids): a duplicate is refused exactly when some node lies deeper than the limit.
RECURSIVE Second(_)
Second(d) == IF d = 0 THEN N1 ELSE VArr(<<N1, Second(d - 1)>>)
RECURSIVE First(_)
First(d) == IF d = 0 THEN N1 ELSE VArr(<<First(d - 1), N1>>)
RECURSIVE Third(_)
Third(d) == IF d = 0 THEN VNull ELSE VObj(<< <<<<97>>, N1>>, <<<<98>>, VNull>>, <<<<99>>, Third(d - 1)>> >>)
RECURSIVE TreeHeight(_)
TreeHeight(v) == IF v.m = <<>> THEN 0 ELSE 1 + MaxOf({TreeHeight(v.m[i].v) : i \in DOMAIN v.m})
LimitCases(L) == {Second(d) : d \in {L - 1, L, L + 1}} \cup {First(d) : d \in {L, L + 1}} \cup {Third(d) : d \in {L, L + 1}}        \* an operator, so that TLC does not evaluate it eagerly
DupCases == (IF WithLimitCases THEN LimitCases(CircLimit) ELSE {}) \cup {DeepTrail(d) : d \in {1, 8, 15, 16, 17, 31, 32, 33, 34, 35, 36, 40, 64, 100}}
            \cup {DeepObj(d) : d \in {8, 17, 33, 40, 70}} \cup {DeepMix(d) : d \in {9, 18, 36}}
            \cup {VArr([i \in 1..n |-> IF RemB(i, 3) = 0 THEN VStr(RepC(97, RemB(i, 40))) ELSE N1]) : n \in {10, 100, 1000, 3000}}
            \cup {VObj([i \in 1..n |-> <<DecText(i), VArr(<<N1>>)>>]) : n \in {9, 17, 300}}
            \cup {VStr(RepC(97, n)) : n \in {255, 256, 1000, 70000}}

\* key lists for sorting: [keys, case sensitive]
Key3(i) == <<107>> \o DecText(1000 + i)
Desc(n) == [i \in 1..n |-> Key3(n - i)]
Stride(n, st) == [i \in 1..n |-> Key3(RemB(i * st, n))]
Mixed(n) == [i \in 1..n |-> IF RemB(i, 4) = 0 THEN <<195, 132>> \o DecText(i) ELSE IF RemB(i, 4) = 1 THEN <<65 + RemB(i, 26)>> \o DecText(n - i)
                                 ELSE IF RemB(i, 4) = 2 THEN <<97 + RemB(i * 7, 26)>> \o DecText(RemB(i, 5)) ELSE <<90 - RemB(i, 26), 97>>]
SortCases == {Desc(n) : n \in {2, 9, 17, 255, 256, 257, 300, 520, 1000}} \cup {Stride(n, st) : n \in {9, 17, 64, 257, 1021}, st \in {3, 7}}
             \cup {Mixed(n) : n \in {9, 12, 33, 100, 600}} \cup {[i \in 1..n |-> <<107>>] : n \in {3, 9, 300}}

\* words whose first difference is one of case only, followed by equal bytes and then a real difference (or the end of one of them):
\* every ordered pair and triple of them
Words == {<<88, 121, 122>>, <<120, 121, 97>>, <<65, 97>>, <<97, 97, 98>>, <<99, 111, 110, 116, 101, 110, 116, 45, 76, 101, 110, 103, 116, 104>>, <<67, 111, 110, 116, 101, 110, 116, 45, 84, 121, 112, 101>>, <<97, 98>>, <<65, 66>>, <<97, 66>>, <<97>>, <<97, 98, 99>>, <<65, 66, 100>>, <<120, 89, 98>>}
WordCases == {<<x, y>> : x, y \in Words} \cup {<<x, y, z>> : x, y, z \in Words}
\* key lookups with names of every length 1..70 and around 128 ... 1024: the member with the longer key (name + one byte) stands in front of the
\* member with the exact key; queries: the name, its upper-case form, a name one byte longer / shorter.  Expected: the first member whose key is
\* equal (KeyEq of JsonValue: byte-equal, or equal after ASCII folding)
KeyLens == (1..70) \cup {127, 128, 129, 255, 256, 257, 511, 512, 513, 1023, 1024, 1025}
KName(L, ch) == [i \in 1..L |-> IF i = L THEN ch ELSE 97 + RemB(i, 3)]
KeyCases == UNION {{ <<<<KName(L, 113) \o <<120>>, KName(L, 113), <<122>>>>, q>> : q \in {KName(L, 113), KName(L, 81), KName(L, 113) \o <<121>>, KName(L, 113) \o <<120>>, SubSeq(KName(L, 113), 1, L - 1), FoldUp(KName(L, 113))} } : L \in KeyLens}
FirstMatch(keys, q, cs) == IF \E i \in DOMAIN keys : KeyEq(keys[i], q, cs) THEN CHOOSE i \in DOMAIN keys : KeyEq(keys[i], q, cs) /\ \A j \in DOMAIN keys : KeyEq(keys[j], q, cs) => i <= j ELSE 0
FoldTable == [b \in 1..255 |-> FoldB(<<b>>)[1]]
KeyLessFold(x, y) == KeyLessB(FoldB(x), FoldB(y))
FoldOrderLemma == \A x \in {<<107, 64, 120>>, <<107, 95, 120>>, <<75, 91>>, <<107, 123>>, <<107>>} : \A y \in {<<107, 96, 120>>, <<75, 63, 120>>, <<107, 90>>, <<107, 122, 1>>, <<>>} :
                    KeyLessFold(x, y) <=> \/ \E i \in 1..Len(x) : i <= Len(y) /\ FoldTable[x[i]] < FoldTable[y[i]] /\ \A j \in 1..(i - 1) : FoldTable[x[j]] = FoldTable[y[j]]
                                          \/ Len(x) < Len(y) /\ \A j \in 1..Len(x) : FoldTable[x[j]] = FoldTable[y[j]]
Init == phase = 0 /\ c \in (IF Mode = "dup" THEN DupCases ELSE IF Mode = "keys" THEN KeyCases ELSE SortCases \cup WordCases)
Next == /\ phase = 0 /\ phase' = 1 /\ c' = c
        /\ IF Mode = "keys" THEN Emit => (PrintT(ToJson(<<"Q", c[1], c[2], TRUE, FirstMatch(c[1], c[2], TRUE)>>)) /\ PrintT(ToJson(<<"Q", c[1], c[2], FALSE, FirstMatch(c[1], c[2], FALSE)>>)))
           ELSE IF Mode = "dup"
           THEN Emit => PrintT(ToJson(<<"D", JV(c), TreeHeight(c) > CircLimit>>))
           ELSE Emit => (PrintT(ToJson(<<"S", c, TRUE>>)) /\ PrintT(ToJson(<<"S", c, FALSE>>))
                         \* scale directives: n members whose keys are "k" and the 7 digits of (i * 11) mod n (case of the "k" alternating for the folded variant);
                         \* the driver builds them, the verdict is the one of SortVerdict (MC_UtilCheck), evaluated by the driver's own comparison, which the
                         \* recorded small and medium cases validate against TLC
                         /\ (c = <<<<107>>, <<107>>, <<107>>>> => \A n \in ScaleSizes : PrintT(ToJson(<<"Z", n, 11>>)))
                         \* the ASCII case folding of the case-insensitive order as a byte table (the order compares folded bytes one by one: FoldOrderLemma);
                         \* the driver sorts two members whose keys differ in one byte, for every pair of byte values, with both variants
                         /\ (c = <<<<107>>, <<107>>, <<107>>>> => Assert(FoldOrderLemma, "the case-insensitive key order is not byte-wise") /\ PrintT(ToJson(<<"W", FoldTable>>))))
=============================================================================
