-------------------------------- MODULE Patch --------------------------------
(***************************************************************************)
(* RFC 6902 JSON Patch and RFC 7396 JSON Merge Patch, declaratively, on      *)
(* JsonValue (objects as ordered member lists, compared as key/value sets). *)
(*   ApplyRFC(doc, patch)  -> [ok, doc, open]                                 *)
(*      ok    the RFC evaluation succeeds (then doc is the result)            *)
(*      open  the RFC or property C16 leaves the case undecided (a pointer    *)
(*            that is not syntactically valid, removal of the whole document) *)
(*   MergeRFC(target, patch) -> value                                         *)
(***************************************************************************)
EXTENDS Pointer

Member(v, key) ==        \* position of the member with this key, 0 if none
  LET hits == {i \in DOMAIN v.m : v.m[i].k = key} IN IF hits = {} THEN 0 ELSE CHOOSE i \in hits : \A j \in hits : i <= j
Get(v, key) == v.m[Member(v, key)].v

RECURSIVE SetAt(_, _, _)
\* replace the value at an existing path
SetAt(v, path, x) == IF path = <<>> THEN x
                     ELSE [v EXCEPT !.m[path[1]].v = SetAt(v.m[path[1]].v, Tail(path), x)]
RemoveMember(v, i) == [v EXCEPT !.m = SubSeq(v.m, 1, i - 1) \o SubSeq(v.m, i + 1, Len(v.m))]
InsertMember(v, i, mem) == [v EXCEPT !.m = SubSeq(v.m, 1, i - 1) \o <<mem>> \o SubSeq(v.m, i, Len(v.m))]
RECURSIVE UpdateAt(_, _, _)
\* apply f-like change c = [op, i, mem] to the container at path
UpdateAt(v, path, c) ==
  IF path = <<>> THEN (IF c.op = "remove" THEN RemoveMember(v, c.i) ELSE InsertMember(v, c.i, c.mem))
  ELSE [v EXCEPT !.m[path[1]].v = UpdateAt(v.m[path[1]].v, Tail(path), c)]

ParentPtr(p) == LET RECURSIVE lastSlash(_)
                    lastSlash(i) == IF p[i] = 47 THEN i ELSE lastSlash(i - 1)
                IN SubSeq(p, 1, lastSlash(Len(p)) - 1)
LastToken(p) == Tokens(p)[Len(Tokens(p))]

Err == [ok |-> FALSE, doc |-> VNull, open |-> FALSE]
Open == [ok |-> FALSE, doc |-> VNull, open |-> TRUE]
Done(d) == [ok |-> TRUE, doc |-> d, open |-> FALSE]

\* add value x at pointer p (RFC 6902 4.1)
AddAt(doc, p, x) ==
  IF p = <<>> THEN Done(x)
  ELSE LET pp == Resolve(doc, ParentPtr(p)) IN
       IF pp = NoPath THEN Err
       ELSE LET par == ValueAt(doc, pp) tok == LastToken(p) key == Unescape(tok) IN
            IF par.t = "obj" THEN
                 LET i == Member(par, key) IN
                 IF i # 0 THEN Done(SetAt(doc, Append(pp, i), x))                        \* existing member: value replaced
                 ELSE Done(UpdateAt(doc, pp, [op |-> "insert", i |-> Len(par.m) + 1, mem |-> Mem(key, x)]))
            ELSE IF par.t = "arr" THEN
                 IF tok = <<45>> THEN Done(UpdateAt(doc, pp, [op |-> "insert", i |-> Len(par.m) + 1, mem |-> Mem(NoKey, x)]))
                 ELSE IF IsIndexToken(tok) /\ DecVal(tok) <= Len(par.m)
                      THEN Done(UpdateAt(doc, pp, [op |-> "insert", i |-> DecVal(tok) + 1, mem |-> Mem(NoKey, x)]))
                      ELSE Err
            ELSE Err

RemoveAtPtr(doc, p) ==
  LET path == Resolve(doc, p) IN
  IF path = NoPath THEN Err
  ELSE IF path = <<>> THEN Open                                                        \* removing the whole document: undefined
  ELSE Done(UpdateAt(doc, SubSeq(path, 1, Len(path) - 1), [op |-> "remove", i |-> path[Len(path)], mem |-> Mem(NoKey, VNull)]))

IsPrefix(a, b) == Len(a) <= Len(b) /\ SubSeq(b, 1, Len(a)) = a

StrMember(o, name) == LET i == Member(o, name) IN IF i = 0 THEN [has |-> FALSE, isStr |-> FALSE, s |-> <<>>]
                                                   ELSE [has |-> TRUE, isStr |-> o.m[i].v.t = "str", s |-> o.m[i].v.s]
KOp == <<111, 112>>    KPath == <<112, 97, 116, 104>>    KFrom == <<102, 114, 111, 109>>    KValue == <<118, 97, 108, 117, 101>>
OpAdd == <<97, 100, 100>>  OpRemove == <<114, 101, 109, 111, 118, 101>>  OpReplace == <<114, 101, 112, 108, 97, 99, 101>>
OpMove == <<109, 111, 118, 101>>  OpCopy == <<99, 111, 112, 121>>  OpTest == <<116, 101, 115, 116>>

\* one operation object
ApplyOp(doc, o) ==
  IF o.t # "obj" THEN Err
  ELSE LET op == StrMember(o, KOp) path == StrMember(o, KPath) from == StrMember(o, KFrom) vi == Member(o, KValue) IN
  IF ~op.has \/ ~op.isStr \/ ~path.has \/ ~path.isStr THEN Err
  ELSE IF op.s \notin {OpAdd, OpRemove, OpReplace, OpMove, OpCopy, OpTest} THEN Err
  ELSE IF ~ValidPointer(path.s) THEN Open
  ELSE IF op.s = OpAdd THEN (IF vi = 0 THEN Err ELSE AddAt(doc, path.s, o.m[vi].v))
  ELSE IF op.s = OpRemove THEN RemoveAtPtr(doc, path.s)
  ELSE IF op.s = OpReplace THEN
       (IF vi = 0 THEN Err ELSE LET tp == Resolve(doc, path.s) IN IF tp = NoPath THEN Err ELSE Done(SetAt(doc, tp, o.m[vi].v)))
  ELSE IF op.s = OpTest THEN
       (IF vi = 0 THEN Err ELSE LET tp == Resolve(doc, path.s) IN
                                IF tp = NoPath THEN Err ELSE IF SemEq(ValueAt(doc, tp), o.m[vi].v, TRUE) THEN Done(doc) ELSE Err)
  ELSE \* move, copy
       IF ~from.has \/ ~from.isStr THEN Err
       ELSE IF ~ValidPointer(from.s) THEN Open
       ELSE LET fp == Resolve(doc, from.s) IN
            IF fp = NoPath THEN Err
            ELSE IF op.s = OpCopy THEN AddAt(doc, path.s, ValueAt(doc, fp))
            ELSE IF from.s # path.s /\ IsPrefix(from.s \o <<47>>, path.s) THEN Err          \* a location cannot be moved into one of its children
            ELSE IF from.s = path.s THEN Done(doc)
            ELSE LET x == ValueAt(doc, fp) r == RemoveAtPtr(doc, from.s) IN
                 IF r.open THEN Open ELSE IF ~r.ok THEN Err ELSE AddAt(r.doc, path.s, x)

RECURSIVE ApplyOps(_, _, _)
ApplyOps(doc, ops, i) ==
  IF i > Len(ops) THEN Done(doc)
  ELSE LET r == ApplyOp(doc, ops[i].v) IN IF ~r.ok THEN r ELSE ApplyOps(r.doc, ops, i + 1)

ApplyRFC(doc, patch) == IF patch.t # "arr" THEN Err ELSE ApplyOps(doc, patch.m, 1)

(***************************************************************************)
(* RFC 7396                                                                 *)
(***************************************************************************)
RECURSIVE MergeRFC(_, _)
RECURSIVE MergeMembers(_, _, _)
MergeRFC(target, patch) ==
  IF patch.t # "obj" THEN patch
  ELSE MergeMembers(IF target.t = "obj" THEN target ELSE VObj(<<>>), patch.m, 1)
MergeMembers(t, pm, i) ==
  IF i > Len(pm) THEN t
  ELSE LET name == pm[i].k val == pm[i].v j == Member(t, name) IN
       IF val.t = "null" THEN MergeMembers(IF j = 0 THEN t ELSE RemoveMember(t, j), pm, i + 1)
       ELSE IF j = 0 THEN MergeMembers(InsertMember(t, Len(t.m) + 1, Mem(name, MergeRFC(VNull, val))), pm, i + 1)
       ELSE MergeMembers([t EXCEPT !.m[j].v = MergeRFC(t.m[j].v, val)], pm, i + 1)

RECURSIVE HasNullMember(_)
HasNullMember(v) == \E i \in DOMAIN v.m : (v.t = "obj" /\ v.m[i].v.t = "null") \/ HasNullMember(v.m[i].v)
=============================================================================
