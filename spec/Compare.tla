------------------------------ MODULE Compare ------------------------------
(***************************************************************************)
(* Transcription of cJSON_Compare (cJSON.c:3030-3153): type switch, arrays  *)
(* in lock step with a final length check, objects by looking every member  *)
(* of a up in b and every member of b up in a through get_object_item       *)
(* (first exact / first case-folded match).  Checked against SemEq (C12).   *)
(***************************************************************************)
EXTENDS JsonValue

\* get_object_item on a value: first member whose key matches, 0 if none
Lookup(obj, name, cs) ==
  LET hits == {i \in DOMAIN obj.m : obj.m[i].k # NoKey /\ KeyEq(obj.m[i].k, name, cs)}
  IN IF hits = {} THEN 0 ELSE CHOOSE i \in hits : \A j \in hits : i <= j

RECURSIVE CompareImpl(_, _, _)
CompareImpl(a, b, cs) ==
  IF a.t # b.t THEN FALSE
  ELSE CASE a.t \in {"null", "true", "false"} -> TRUE
         [] a.t = "num" -> NumEq(a.n, b.n)                       \* compare_double
         [] a.t \in {"str", "raw"} -> a.s = b.s                  \* strcmp
         [] a.t = "arr" ->
              LET n == IF Len(a.m) < Len(b.m) THEN Len(a.m) ELSE Len(b.m) IN
              /\ \A i \in 1..n : CompareImpl(a.m[i].v, b.m[i].v, cs)
              /\ Len(a.m) = Len(b.m)                              \* one of the arrays is longer than the other
         [] a.t = "obj" ->
              /\ \A i \in DOMAIN a.m : LET j == Lookup(b, a.m[i].k, cs) IN j # 0 /\ CompareImpl(a.m[i].v, b.m[j].v, cs)
              /\ \A j \in DOMAIN b.m : LET i == Lookup(a, b.m[j].k, cs) IN i # 0 /\ CompareImpl(b.m[j].v, a.m[i].v, cs)
         [] OTHER -> FALSE
=============================================================================
